"""Per-property configuration of the simulation checks (engine, tiers, evidence texts)."""

REAL = ["every package of /repo (instrumented scratch copy of the current working tree)", "gnark-crypto (uninstrumented: its goroutines run as part of the calling task's step)", "Go runtime, testing/synctest bubble"]

STUB_SCHED = ["entropy source (keyed PRF behind crypto/rand.Reader)", "goroutine scheduler (seeded token scheduler; real goroutines used as coroutines)", "map iteration order (canonical order + tape permutation)"]

CHECKS = {
    "C03": {
        "engine": "c03",
        "level": "exploration",
        "rule": "one evaluation = one Prove(+Verify) under a tape-chosen schedule; a case = (backend, curve, generated circuit, witness, nbTasks, option set, scenario in "
                "{valid, invalid witness, hint error at invocation k, entropy error / short read at draw k}); distinct_nontrivial counts distinct case descriptors",
        "quick": {"runs": 640, "budget_s": 220, "race_runs": 48, "race_budget_s": 70, "selftest_runs": 5, "params": {"slots": 32}},
        "thorough": {"runs": 30000, "budget_s": 2700, "race_runs": 1500, "race_budget_s": 1500, "selftest_runs": 8, "params": {"slots": 64}},
        "expect_probes": ["scenario:valid", "scenario:invalid-witness", "hint_error", "entropy-error", "entropy-short-read", "proof_bytes_equal_default_schedule", "opts:statzk", "opts:mismatch-htf", "opts:htf=sha512", "opts:htf=sha224"],
        "components": {"real": REAL, "stub": STUB_SCHED + ["hint function under fault", "entropy source under fault (error / short read at draw k)"]},
        "assumptions": ["completeness is explored for the circuit shapes the generator reaches (straight-line programs, 0-2 commitments, lookups, range checks, hints, wide levels)", "bounded liveness is measured in scheduling steps against the fault-free run of the same configuration (3x + 5000)"],
    },
    "C11": {
        "engine": "c11",
        "level": "exploration",
        "rule": "one evaluation = one recompilation compared byte-for-byte with the reference compilation of the same circuit; a case = (builder, curve, generated circuit incl. "
                "hints/commitments/lookups/range checks/emulated mul/wire-constraint queries, variant in {map permutation, capacity hint, after other compilations, concurrent under the scheduler, key reuse}); "
                "plus cross-process comparison of the reference bytes between workers",
        "quick": {"runs": 1280, "budget_s": 200, "selftest_runs": 6, "params": {"slots": 64}},
        "thorough": {"runs": 40000, "budget_s": 2400, "race_runs": 1200, "race_budget_s": 900, "selftest_runs": 8, "params": {"slots": 128}},
        "expect_probes": ["mode:map-permutation", "mode:concurrent", "mode:keys-reuse", "wire_query_circuit", "emulated_circuit", "map_order_permuted", "capacity_hint"],
        "components": {"real": REAL, "stub": STUB_SCHED},
        "assumptions": ["map iterations over pointer-keyed maps keep the runtime's order (counted as unseamed); they are exercised only through repeated and cross-process compilation", "same Go version and architecture for all compilations"],
    },
    "C20": {
        "engine": "c20",
        "level": "exploration",
        "rule": "one evaluation = one live proof compared element-wise with the zero-entropy proof U of the same witness and with the other proofs of its history; a case = (backend, curve, "
                "generated circuit, witness, statistical-ZK option, history in {sequential, concurrent, entropy error at draw k, replayed entropy}, number of proofs)",
        "quick": {"runs": 800, "budget_s": 200, "race_runs": 48, "race_budget_s": 70, "selftest_runs": 5, "params": {"slots": 32}},
        "thorough": {"runs": 30000, "budget_s": 2400, "selftest_runs": 8, "params": {"slots": 64}},
        "expect_probes": ["history:sequential", "history:concurrent", "entropy_stuck_at_zero", "entropy_error_at_draw_k", "entropy_replayed_block", "circuit_with_commitment"],
        "components": {"real": REAL, "stub": STUB_SCHED + ["entropy source under fault (stuck at zero, error at draw k, replayed block)"]},
        "assumptions": ["blinded elements are those the property names: Groth16 Ar, Bs, Krs, Commitments[i]; PLONK LRO, Z, H, Bsb22Commitments[i] and the opening proofs", "U is what the real prover emits when every entropy byte is zero", "r != s is decided with a pairing on BN254 only"],
    },
    "C08": {
        "engine": "c08",
        "level": "fault_enumeration",
        "rule": "one evaluation = one decode or one Verify of a faulted artefact; faults: truncation / byte flip at and around every logged element boundary, length-prefix values, trailing bytes, read errors, "
                "chunked and EOF-with-data readers, in-memory length edits of every variable-length proof part, witness header / vector-length lies; a case = (backend, curve, circuit, fault tape)",
        "quick": {"runs": 640, "budget_s": 200, "selftest_runs": 4, "params": {"slots": 24, "faults": 48},
                  "extra_batches": [{"tag": "bombs", "runs": 16, "workers": 16, "budget_s": 60, "params": {"bombs": "1", "faults": 3}}]},
        "thorough": {"runs": 24000, "budget_s": 2400, "selftest_runs": 6, "params": {"slots": 64, "faults": 96},
                     "extra_batches": [{"tag": "bombs", "runs": 64, "workers": 16, "budget_s": 240, "params": {"bombs": "1", "faults": 3}}]},
        "expect_probes": ["truncation", "byte_flip", "length_prefix", "trailing_bytes", "read_error", "struct_length_edit", "witness_fault", "chunked_reader", "decoded", "decode_error", "verify_rejected"],
        "components": {"real": REAL, "stub": ["stream source (simulated disk with chunking, EOF-with-data, read errors, truncation, corruption)", "entropy source (keyed PRF)"]},
        "assumptions": ["panics in goroutines that the verifier itself starts kill the worker and are attributed by re-running the run alone", "allocation bombs are run under a 12 GB address-space limit"],
    },
    "C01": {
        "engine": "c01",
        "level": "fault_enumeration",
        "rule": "one evaluation = one Verify of a faulted (proof, public witness) delivery judged against the session ledger; faults: none, replay across sessions, proof under independent keys, "
                "substitution of every proof element (infinity / negation / multiple / sum / element of the same or another proof; scalars +-1, 0, negated, swapped), list edits (shorten, extend, swap, empty), "
                "public-input edits (+-1, swap, replace), the crafted surplus commitment sum (x'-x)K, byte flips on both encodings, prover-memory fault through the post-solve hook; a case = (curve, circuit, fault tape)",
        "quick": {"runs": 480, "budget_s": 220, "selftest_runs": 4, "params": {"slots": 24, "faults": 40}},
        "thorough": {"runs": 20000, "budget_s": 2700, "selftest_runs": 6, "params": {"slots": 64, "faults": 80}},
        "expect_probes": ["none", "replay_other_session", "other_keys", "element_substitution", "list_edit", "public_input_edit", "byte_flip", "prover_memory_fault", "accepted", "rejected", "circuit_with_commitment", "crafted_surplus_commitment"],
        "components": {"real": REAL + ["post-solve hook (constraint/verifhook, -tags verif) hands the solved vectors to the harness"], "stub": ["the wire between prover and verifier (harness transport over the real serialised bytes)", "entropy source (keyed PRF)", "prover memory under fault (one solved wire / trace cell overwritten)"]},
        "assumptions": ["single-element edits and recombinations of available elements only: forgeries that need new algebra are the cryptographic assumption itself", "points outside the prime-order subgroup are not generated", "legitimacy of an accepted altered statement is decided by the program evaluator with the session's secret inputs"],
    },
    "C02": {
        "engine": "c02",
        "level": "fault_enumeration",
        "rule": "one evaluation = one Verify of a faulted (proof, public witness) delivery judged against the session ledger; faults: none, replay across sessions, proof under independent keys, "
                "substitution of every proof element (infinity / negation / multiple / sum / element of the same or another proof; scalars +-1, 0, negated, swapped), list edits (shorten, extend, swap, empty), "
                "public-input edits (+-1, swap, replace), byte flips on both encodings, prover-memory fault through the post-solve hook; a case = (curve, circuit, fault tape)",
        "quick": {"runs": 480, "budget_s": 220, "selftest_runs": 4, "params": {"slots": 24, "faults": 40}},
        "thorough": {"runs": 20000, "budget_s": 2700, "selftest_runs": 6, "params": {"slots": 64, "faults": 80}},
        "expect_probes": ["none", "replay_other_session", "other_keys", "element_substitution", "list_edit", "public_input_edit", "byte_flip", "prover_memory_fault", "accepted", "rejected", "circuit_with_commitment"],
        "components": {"real": REAL + ["post-solve hook (constraint/verifhook, -tags verif) hands the solved vectors to the harness"], "stub": ["the wire between prover and verifier (harness transport over the real serialised bytes)", "entropy source (keyed PRF)", "prover memory under fault (one solved wire / trace cell overwritten)"]},
        "assumptions": ["single-element edits and recombinations of available elements only: forgeries that need new algebra are the cryptographic assumption itself", "points outside the prime-order subgroup are not generated", "legitimacy of an accepted altered statement is decided by the program evaluator with the session's secret inputs"],
    },
    "C09": {
        "engine": "c09",
        "level": "exploration",
        "rule": "one evaluation = one oracle clause (byte count, re-encoding identity, behavioural equality, fault reported) on one artefact; a case = (backend, curve, generated circuit, artefact in "
                "{ccs, pk, vk, proof, witness, public witness}, encoding in {WriteTo, WriteRawTo, WriteDump}, safe/unsafe reader, scenario in {round trip under chunking, write fault, read fault / truncation, concurrent decoders + solve under the scheduler})",
        "quick": {"runs": 960, "budget_s": 200, "selftest_runs": 6, "params": {"slots": 24}},
        "thorough": {"runs": 40000, "budget_s": 2400, "race_runs": 800, "race_budget_s": 900, "selftest_runs": 8, "params": {"slots": 64}},
        "expect_probes": ["artefact:ccs", "artefact:pk", "artefact:vk", "artefact:proof", "artefact:witness", "encoding:WriteRawTo/ReadFrom", "encoding:WriteDump/ReadDump", "write_error", "read_error", "truncation"],
        "components": {"real": REAL, "stub": STUB_SCHED + ["stream sink / source (simulated disk: chunking, EOF-with-data, write errors, short writes, read errors, truncation)"]},
        "assumptions": ["behavioural equality is sampled on the fixture's witness pool", "GKR metadata is not produced by the generator"],
    },
    "C18": {
        "engine": "c18",
        "level": "fault_enumeration",
        "rule": "one evaluation = one coordinator verification of a delivered phase-1 or phase-2 transcript judged against the lineage ledger (accept iff prefix of the honest chain), plus prove/verify with the sealed keys; "
                "faults: none, drop, duplicate, swap, splice from a second ceremony of the same circuit, one encoded element replaced by another valid element (same message / same position of the other ceremony), truncation, missing tail; "
                "contributors on zero / replayed entropy; a case = (curve, circuit, domain size, contributions per phase, fault tape)",
        "quick": {"runs": 320, "budget_s": 220, "selftest_runs": 3, "params": {"slots": 12, "faults": 10}},
        "thorough": {"runs": 12000, "budget_s": 2700, "selftest_runs": 4, "params": {"slots": 36, "faults": 16}},
        "expect_probes": ["none", "drop", "duplicate", "reorder", "splice", "element_replaced", "truncation", "tail_dropped", "transcript_accepted", "transcript_rejected", "extracted_keys_prove_and_verify", "circuit_with_commitment"],
        "components": {"real": REAL, "stub": ["the wire between contributors and coordinator (harness transport over the real serialised contributions)", "entropy source of the contributors (keyed PRF; zero and replayed-block faults)"]},
        "assumptions": ["a byzantine contributor is modelled by recombination of honest elements (own message, other ceremony), not by fresh algebra", "domain sizes 2..64"],
    },
    "C05": {
        "engine": "c05",
        "level": "fault_enumeration",
        "rule": "one evaluation = one Solve of a one-operation circuit under a plan of faulted hint answers (perturbed / swapped / misdirected / replayed / compensated / failed), judged by the operation's documented relation on the probed outputs; "
                "over the 47-element field every input x every single-output substitution of every hint invocation is enumerated for the single-input operations (exhaustive cells); a case = (operation, field, builder, inputs, fault tape)",
        "quick": {"runs": 1600, "budget_s": 200, "selftest_runs": 4, "params": {"faults": 24}},
        "thorough": {"runs": 60000, "budget_s": 2400, "selftest_runs": 6, "params": {"faults": 48}},
        "expect_probes": ["faulty_answer_rejected", "faulty_answer_accepted", "field:tinyfield", "exhaustive_single_output_substitution", "perturb-output", "misdirected", "compensated-shift", "modular-alias", "hint-error"],
        "components": {"real": REAL + ["hint wrapper hook (constraint/verifhook, -tags verif)"], "stub": ["hint answers under fault (byzantine solver oracle)", "commitment challenge in solver-only runs (hash of the committed values)"]},
        "assumptions": ["only the dishonest-prover clause is decided: wires no hint controls are determined by the constraints and are not substituted", "the fault-free equality with the specification is the baseline of the same runs, not a claim over all programs"],
    },
    "C12": {
        "engine": "c12",
        "level": "fault_enumeration",
        "rule": "one evaluation = one Solve of an emulated-arithmetic chain under a plan of faulted hint answers (quotient / remainder / carry / inverse / square-root / padding answers: perturbed, swapped, misdirected, replayed, shifted between limbs, modular alias, +-modulus windows, sign flip, failed), judged by the math/big value of the chain modulo the emulated modulus on the strictly reduced probed result; "
                "a case = (emulated field in {Goldilocks, secp256k1 Fp, BN254 Fp, BLS12-381 Fp}, chain in {mul, mul-add-sub, div, inverse, sqrt, 24-step lazy chain, select/iszero, canonical bits, less-or-equal, neg/mulconst, exp, equality}, native field, builder, operands incl. 0, 1, p-1, p, all-ones)",
        "quick": {"runs": 480, "budget_s": 230, "selftest_runs": 3, "params": {"faults": 10}},
        "thorough": {"runs": 16000, "budget_s": 2700, "selftest_runs": 4, "params": {"faults": 32}},
        "expect_probes": ["faulty_answer_rejected", "perturb-output", "misdirected", "replayed", "compensated-shift", "add-input-window", "quotient-shift", "hint-error"],
        "components": {"real": REAL + ["hint wrapper hook (constraint/verifhook, -tags verif)"], "stub": ["hint answers under fault (byzantine solver oracle)", "commitment challenge in solver-only runs (hash of the committed values, as under Fiat-Shamir)"]},
        "assumptions": ["only the 'no substitution of hint outputs' clause is decided; congruence under honest hints is the baseline of the same runs", "operand representations are those a witness can carry (reduced values and the modulus itself) and those the chains produce"],
    },
    "C19": {
        "engine": "c19",
        "level": "fault_enumeration",
        "rule": "one evaluation = one Solve of a circuit delegating a batch of gate evaluations to GKR under a plan of faulted answers of the GKR solving hint (exported values) and proving hint (sum-check proof elements), judged by direct evaluation of the same gates on the imported inputs; "
                "a case = (topology in {mul; add+mul with fan-out; mul-mul-sub; neg-add-mul}, 2..16 instances; series dependencies between instances (swap, chains of three and four); the gkr-poseidon2 compression wrapper on BLS12-377 with the challenge-binding probe (a changed claimed output must change the committed values that seed the verifier); field, builder, inputs, fault tape)",
        "quick": {"runs": 480, "budget_s": 220, "selftest_runs": 3, "params": {"faults": 12}},
        "thorough": {"runs": 16000, "budget_s": 2700, "selftest_runs": 4, "params": {"faults": 32}},
        "expect_probes": ["faulty_answer_rejected", "perturb-output", "misdirected", "replayed", "swap-outputs", "hint-error"],
        "components": {"real": REAL + ["hint wrapper hook (constraint/verifhook, -tags verif): reaches the GKR hints the solver installs itself"], "stub": ["hint answers under fault (byzantine solver oracle)", "commitment challenge in solver-only runs (hash of the committed values)"]},
        "assumptions": ["only the forgery clause is decided (the fault-free equality with direct evaluation is the baseline of the same runs)", "Fiat-Shamir hash: mimc"],
    },
    "C13": {
        "engine": "c13",
        "level": "fault_enumeration",
        "rule": "one evaluation = one Solve of a gadget circuit under a plan of faulted hint answers (perturbed / swapped / misdirected / replayed / compensated shift between digits / modular alias / quotient shift / sign flip / failed), judged by the gadget's documented semantics on the probed outputs; "
                "a case = (gadget instance, field, builder, inputs biased to the domain boundaries, fault tape); gadgets: rangecheck (1..253 bits, mixed widths), logderivlookup tables of 1..300 entries with repeated / boundary / out-of-range queries, lookup + rangecheck sharing one circuit",
        "quick": {"runs": 960, "budget_s": 220, "selftest_runs": 4, "params": {"faults": 16}},
        "thorough": {"runs": 30000, "budget_s": 2700, "selftest_runs": 6, "params": {"faults": 40}},
        "expect_probes": ["faulty_answer_rejected", "faulty_answer_accepted", "perturb-output", "misdirected", "replayed", "compensated-shift", "modular-alias", "hint-error"],
        "components": {"real": REAL + ["hint wrapper hook (constraint/verifhook, -tags verif)"], "stub": ["hint answers under fault (byzantine solver oracle)", "commitment challenge in solver-only runs (hash of the committed values, as under Fiat-Shamir)"]},
        "assumptions": ["only the dishonest-prover clause is decided; equality with the mathematical result under honest hints is the baseline of the same runs", "the nemesis does not adapt its answers to the commitment challenge (it acts before the commitment, as a real prover must)"],
    },
    "C14": {
        "engine": "c14",
        "level": "fault_enumeration",
        "rule": "one evaluation = one Solve of a gadget circuit under a plan of faulted hint answers (perturbed / swapped / misdirected / replayed / compensated shift between digits / modular alias / quotient shift / sign flip / failed), judged by the gadget's documented semantics on the probed outputs; "
                "a case = (gadget instance, field, builder, inputs biased to the domain boundaries, fault tape); gadgets: cmp.IsLess/IsLessOrEqual/IsEqual, BoundedComparator (IsLess, IsLessEq, Min, AssertIsLessEq, AssertIsLess incl. beyond-bound differences), selector.Mux/Map/Slice/Partition, bitslice.Partition, uints U32 and/or/xor/add/rotate/shift/not/ValueOf, ByteValueOf",
        "quick": {"runs": 960, "budget_s": 220, "selftest_runs": 4, "params": {"faults": 16}},
        "thorough": {"runs": 30000, "budget_s": 2700, "selftest_runs": 6, "params": {"faults": 40}},
        "expect_probes": ["faulty_answer_rejected", "faulty_answer_accepted", "perturb-output", "misdirected", "replayed", "compensated-shift", "modular-alias", "hint-error"],
        "components": {"real": REAL + ["hint wrapper hook (constraint/verifhook, -tags verif)"], "stub": ["hint answers under fault (byzantine solver oracle)", "commitment challenge in solver-only runs (hash of the committed values, as under Fiat-Shamir)"]},
        "assumptions": ["only the dishonest-prover clause is decided; equality with the mathematical result under honest hints is the baseline of the same runs", "the nemesis does not adapt its answers to the commitment challenge (it acts before the commitment, as a real prover must)"],
    },
    "C16": {
        "engine": "c16",
        "level": "fault_enumeration",
        "rule": "one evaluation = one evaluation (test engine; compiled solver for the twisted Edwards cases) of a curve / signature gadget under a plan of faulted hint answers (scalar decompositions, half-GCD, hinted scalar-multiplication results, pairing residue witnesses, recovered public keys: perturbed, swapped, misdirected, replayed, element-level negation / alias / exchange / transfer, degenerate all-zero and all-one answers combined with a perturbed second hint, sign flip, failed), judged by an independent math/big reference (affine short Weierstrass and twisted Edwards arithmetic, ECDSA equation) or gnark-crypto (pairings, BLS12-377 G1); "
                "a case = (gadget in {sw_emulated ScalarMul / ScalarMulBase / JointScalarMulBase / MultiScalarMul / AddUnified on secp256k1, P-256, BN254, BLS12-381 (P-384, BW6-761 thorough), with and without complete arithmetic; ECDSA secp256k1 / P-256; ECRecover; native twisted Edwards ScalarMul / DoubleBaseScalarMul / Add on 5 curves; native BLS12-377 G1 ScalarMul / ScalarMulBase and PairingCheck in BW6-761; emulated BN254 and BLS12-381 PairingCheck and AssertFinalExponentiationIsOne; the EVM ECPair precompile (MillerLoopAndMul + MillerLoopAndFinalExpCheck); EdDSA on the BN254 twisted Edwards curve (verdict against gnark-crypto)}, inputs incl. infinity, P = +-Q, scalars 0, 1, 2, r-1, r where the documentation admits them, over-sized native scalars for twisted Edwards, valid and invalid signatures / pairing equations, fault tape)",
        "quick": {"runs": 256, "budget_s": 330, "selftest_runs": 2, "params": {"faults": 8}},
        "thorough": {"runs": 6000, "budget_s": 3000, "selftest_runs": 3, "params": {"faults": 24}},
        "expect_probes": ["faulty_answer_rejected", "focused_hint_calls", "const-all", "emulated-element", "perturb-output", "misdirected", "replayed", "hint-error"],
        "components": {"real": REAL + ["hint wrapper hook (constraint/verifhook and test/engine.go, -tags verif)", "std gadget code evaluated on the test engine (real gadget code; the constraint backend is the engine's big-integer evaluator)"], "stub": ["hint answers under fault (byzantine solver oracle)", "constraint backend for engine-evaluated cases (test engine instead of compiled solver)"]},
        "assumptions": ["only the dishonest-prover clause (no choice of hint outputs yields a wrong group element or verdict) is decided; equality with the native result under honest hints is the baseline of the same runs", "inputs are restricted to each method's documented domain: without complete arithmetic no zero scalar, no (0,0) point and no result at infinity", "most cases are evaluated on the test engine: assertion semantics are the engine's, not the compiled constraints'"],
    },
    "C17": {
        "engine": "c17",
        "level": "exploration",
        "rule": "one evaluation = one delivered (proof, verifying key, public witness) triple judged twice: by the native verifier configured with the matching recursion options and by the in-circuit verifier evaluated on the test engine with the triple as assignment; the verdicts must agree. A case = (configuration in {Groth16 BLS12-377 in BW6-761, PLONK BLS12-377 in BW6-761 (native two-chain gadgets), Groth16 BN254 in BN254 (emulated)}, inner circuit with / without a commitment, vk fixed in the outer circuit or supplied as witness, fault tape); wire faults: none, replay against another session's public inputs, proof made under an independent setup, key / proof of another circuit with the same public inputs, public input +-1 / swapped, proof group element or scalar substituted (negated, multiplied, added to / replaced by another element of this or another proof), verifying-key element substituted; key switching (index selects one of two keys, proof for either); challenge-binding probe for the PLONK opening quotients",
        "quick": {"runs": 320, "budget_s": 240, "selftest_runs": 2, "params": {"faults": 24}},
        "thorough": {"runs": 8000, "budget_s": 3000, "selftest_runs": 3, "params": {"faults": 60}},
        "expect_probes": ["native_accepts", "native_rejects", "replay", "other_setup_proof", "other_circuit", "witness_altered", "proof_element", "vk_element", "key_switching", "challenge_binding_probes", "cfg:groth16/bls12_377-in-bw6_761", "cfg:plonk/bls12_377-in-bw6_761", "cfg:groth16/bn254-in-bn254", "inner:C"],
        "components": {"real": REAL + ["std/recursion verifier gadgets and everything below them, evaluated on the test engine", "native groth16 / plonk provers and verifiers (inner proofs, reference verdict)"], "stub": ["wire between inner prover and verifiers (harness transport with seeded faults)", "constraint backend of the outer circuit (test engine instead of compiled solver)"]},
        "assumptions": ["substituted group elements stay in the prime-order subgroup and are never the point at infinity (the in-circuit arithmetic documents infinity as outside its domain unless complete arithmetic is requested)", "the outer circuit is evaluated on the test engine: assertion semantics are the engine's; hint answers are honest (the dishonest-prover clause of the gadgets below is C16/C12)", "key switching is exercised with two keys of circuits without commitments (Groth16 and PLONK BLS12-377 in BW6-761)"],
    },
    "C06": {
        "engine": "c06",
        "level": "exploration",
        "rule": "one evaluation = one Solve under a tape-chosen schedule and task count, checked against the exported constraints with math/big, the program evaluator's verdict "
                "and the sequential solution; a case = (field, builder, generated circuit, witness, nbTasks, restored-from-bytes, fault); distinct_nontrivial counts distinct case descriptors",
        "quick": {"runs": 1600, "budget_s": 200, "selftest_runs": 6, "params": {"slots": 40}},
        "thorough": {"runs": 60000, "budget_s": 2400, "race_runs": 3000, "race_budget_s": 1200, "selftest_runs": 8, "params": {"slots": 80}},
        "expect_probes": ["solver_task_sent", "restored_from_bytes", "hint_error", "wrong_size_witness", "field:tinyfield", "field:babybear"],
        "components": {"real": REAL, "stub": STUB_SCHED + ["hint function under fault (returns an injected error at invocation k)"]},
        "assumptions": ["the generated programs' big-integer evaluator is the reference for 'the witness satisfies the circuit'", "constraints are read through the exported accessors (GetR1Cs / GetSparseR1Cs / GetCoefficient)", "gnark-crypto field arithmetic is correct"],
    },
    "C10": {
        "engine": "c10",
        "level": "exploration",
        "rule": "one evaluation = one API call (Solve/Prove/Verify/IsSolved) compared with the solo model, or (registry batch) one operation of a hint-registry history (RegisterHint with overlapping lists / GetRegisteredHint / GetRegisteredHints by 2-4 client tasks under the scheduler) checked for linearizability against a grow-only set with porcupine (10 s budget, Unknown is never reported); a case = (backend, curve, generated circuit, "
                "per-client call sequences, shared option slice, background compile/register); distinct_nontrivial counts distinct case descriptors "
                "with >=2 concurrent clients",
        "quick": {"runs": 400, "budget_s": 150, "race_runs": 64, "race_budget_s": 80, "selftest_runs": 5, "params": {"slots": 40}, "extra_batches": [{"tag": "registry", "runs": 640, "budget_s": 60, "params": {"mode": "registry"}, "maxviol": 2}]},
        "thorough": {"runs": 20000, "budget_s": 2400, "race_runs": 1600, "race_budget_s": 1500, "selftest_runs": 8, "params": {"slots": 64}, "extra_batches": [{"tag": "registry", "runs": 1280, "budget_s": 120, "params": {"mode": "registry"}, "maxviol": 2}]},
        "expect_probes": ["system_with_lookup", "prove_with_commitment", "result_bytes_compared", "registry_history_linearizable"],
        "components": {"real": REAL, "stub": ["entropy source (keyed PRF behind crypto/rand.Reader)", "goroutine scheduler (seeded token scheduler; real goroutines used as coroutines)", "map iteration order (canonical order + tape permutation)"]},
        "assumptions": ["gnark-crypto internals are race-free and schedule independent (they are not instrumented)", "interleavings are explored at the granularity of the inserted yield points; the -race tier closes the gap between two yields", "solo model: the same call executed alone under the default schedule with the same keyed entropy"],
    },
}
