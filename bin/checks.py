"""Per-property configuration of the simulation checks (engine, tiers, evidence texts)."""

REAL = ["every package of /repo (instrumented scratch copy of the current working tree)", "gnark-crypto (uninstrumented: its goroutines run as part of the calling task's step)", "Go runtime, testing/synctest bubble"]

STUB_SCHED = ["entropy source (keyed PRF behind crypto/rand.Reader)", "goroutine scheduler (seeded token scheduler; real goroutines used as coroutines)", "map iteration order (canonical order + tape permutation)"]

CHECKS = {
    "C06": {
        "engine": "c06",
        "level": "exploration",
        "rule": "one evaluation = one Solve under a tape-chosen schedule and task count, checked against the exported constraints with math/big, the program evaluator's verdict "
                "and the sequential solution; a case = (field, builder, generated circuit, witness, nbTasks, restored-from-bytes, fault); distinct_nontrivial counts distinct case descriptors",
        "quick": {"runs": 1600, "budget_s": 200, "selftest_runs": 6, "params": {"slots": 40}},
        "thorough": {"runs": 60000, "budget_s": 2400, "race_runs": 3000, "race_budget_s": 1200, "selftest_runs": 8, "params": {"slots": 80}},
        "expect_probes": ["solver_task_sent", "restored_from_bytes", "hint_error", "wrong_size_witness", "field:tinyfield", "field:babybear"],
        "components": {"real": REAL, "stub": STUB_SCHED + ["hint function under fault (returns an injected error at invocation k)"]},
        "assumptions": ["the generated programs' big-integer evaluator is the reference for 'the witness satisfies the circuit'", "constraints are read through the exported accessors (GetR1Cs / GetSparseR1Cs / GetCoefficient)", "gnark-crypto field arithmetic is correct"],
    },
    "C10": {
        "engine": "c10",
        "level": "exploration",
        "rule": "one evaluation = one API call (Solve/Prove/Verify/IsSolved) compared with the solo model; a case = (backend, curve, generated circuit, "
                "per-client call sequences, shared option slice, background compile/register); distinct_nontrivial counts distinct case descriptors "
                "with >=2 concurrent clients",
        "quick": {"runs": 480, "budget_s": 200, "selftest_runs": 5, "params": {"slots": 40}},
        "thorough": {"runs": 20000, "budget_s": 2400, "race_runs": 1600, "race_budget_s": 1500, "selftest_runs": 8, "params": {"slots": 64}},
        "expect_probes": ["system_with_lookup", "prove_with_commitment", "result_bytes_compared"],
        "components": {"real": REAL, "stub": ["entropy source (keyed PRF behind crypto/rand.Reader)", "goroutine scheduler (seeded token scheduler; real goroutines used as coroutines)", "map iteration order (canonical order + tape permutation)"]},
        "assumptions": ["gnark-crypto internals are race-free and schedule independent (they are not instrumented)", "interleavings are explored at the granularity of the inserted yield points; the -race tier closes the gap between two yields", "solo model: the same call executed alone under the default schedule with the same keyed entropy"],
    },
}
