package harness

import (
	"bytes"
	"fmt"
	"reflect"
	"sort"
	"strings"

	bn254 "github.com/consensys/gnark-crypto/ecc/bn254"
	"github.com/consensys/gnark/backend"
	"github.com/consensys/gnark/backend/groth16"
	groth16bn254 "github.com/consensys/gnark/backend/groth16/bn254"
	"github.com/consensys/gnark/backend/plonk"
	"verifsim/simrt"
)

// C20: histories of proofs of the same witness in one process under fresh entropy, compared
// with the proof the real prover emits under the stuck-at-zero entropy fault (the
// deterministic, unblinded elements U). Oracle: (a) no blinded element of a live proof
// equals the corresponding element of U; (b) any two proofs of the history differ in every
// blinded element; (c) enough entropy draws reach the prover; (d) an entropy error at draw k
// makes Prove fail or leaves (a) intact; for BN254 Groth16 additionally r != s, decided with
// a pairing against the proving key's delta elements.

type elem struct {
	Path  string
	Bytes []byte
}

type marshaler interface{ Marshal() []byte }

// flatten walks a proof object and returns every leaf that knows how to marshal itself
// (group elements, field elements) with its field path.
func flatten(v reflect.Value, path string, out *[]elem) {
	if v.Kind() == reflect.Ptr || v.Kind() == reflect.Interface {
		if v.IsNil() {
			return
		}
		flatten(v.Elem(), path, out)
		return
	}
	if v.CanAddr() {
		if m, ok := v.Addr().Interface().(marshaler); ok {
			*out = append(*out, elem{path, m.Marshal()})
			return
		}
	}
	switch v.Kind() {
	case reflect.Struct:
		for i := 0; i < v.NumField(); i++ {
			if !v.Type().Field(i).IsExported() {
				continue
			}
			p := v.Type().Field(i).Name
			if path != "" {
				p = path + "." + p
			}
			flatten(v.Field(i), p, out)
		}
	case reflect.Slice, reflect.Array:
		for i := 0; i < v.Len(); i++ {
			flatten(v.Index(i), fmt.Sprintf("%s[%d]", path, i), out)
		}
	}
}

func proofElems(proof any) []elem {
	var out []elem
	flatten(reflect.ValueOf(proof), "", &out)
	sort.Slice(out, func(i, j int) bool { return out[i].Path < out[j].Path })
	return out
}

// mustBeBlinded says which proof elements the property names as carrying fresh randomness.
func mustBeBlinded(be int, path string, statZK bool) bool {
	if be == beGroth16 {
		return path == "Ar" || path == "Bs" || path == "Krs" || strings.HasPrefix(path, "Commitments[")
	}
	switch {
	case strings.HasPrefix(path, "LRO["), path == "Z", strings.HasPrefix(path, "Bsb22Commitments["):
		return true
	case strings.HasPrefix(path, "H["):
		// the quotient depends on the blinded wire polynomials, so its commitments change from
		// proof to proof with or without the statistical option
		return true
	case path == "ZShiftedOpening.H", path == "ZShiftedOpening.ClaimedValue", path == "BatchedProof.H":
		return true
	}
	return false
}

type c20ref struct {
	U     []elem
	Err   string
	draws uint64
}

var c20refs = map[string]*c20ref{}

var c20Feat = GenFeat{Commit: true, Lookup: true, Range: false, Hint: true, Wide: false, Bits: true, MaxOps: 7, MinOps: 1}

func c20Prove(fx *Fixture, wi int, statZK bool, scope string) (any, []elem, string, *simrt.Scope) {
	sc := simrt.SetScope(scope)
	var opts []backend.ProverOption
	if statZK {
		opts = append(opts, backend.WithStatisticalZeroKnowledge())
	}
	var proof any
	var err error
	if fx.Backend == beGroth16 {
		proof, err = groth16.Prove(fx.CCS, fx.PK.(groth16.ProvingKey), fx.Wits[wi].Full, opts...)
	} else {
		proof, err = plonk.Prove(fx.CCS, fx.PK.(plonk.ProvingKey), fx.Wits[wi].Full, opts...)
	}
	if err != nil {
		return nil, nil, err.Error(), sc
	}
	return proof, proofElems(proof), "", sc
}

func c20Run(w *Worker, tape *simrt.Tape) *Outcome {
	o := &Outcome{}
	ch := func(n int) int { return tape.Choose(simrt.SWorkload, n) }
	curves := w.curves()
	curve := curves[0]
	if ch(3) == 0 {
		curve = curves[ch(len(curves))]
	}
	be := ch(2)
	slot := ch(w.paramInt("slots", 32))
	fx, err := w.fixture(be, curve, slot, c20Feat, true)
	if err != nil {
		o.probe("fixture_skipped") // the generated program does not compile (e.g. commits to a constant): not a case
		o.Desc = "skipped: " + err.Error()
		return o
	}
	statZK := be == bePlonk && ch(2) == 0
	var valid []int
	for i, wt := range fx.Wits {
		if wt.Valid {
			valid = append(valid, i)
		}
	}
	wi := valid[ch(len(valid))]
	history := []string{"sequential", "concurrent", "entropy-error", "replayed-entropy"}[ch(4)]
	nproofs := 2 + ch(3)
	cfg := drawPolicy(tape)
	where := beNames[be]
	o.Desc = fmt.Sprintf("%s/%s/slot%d[%s] w%d statzk=%v history=%s n=%d", beNames[be], curve, slot, fx.Prog.Kinds(), wi, statZK, history, nproofs)
	o.NonTrivial = true
	o.probe("history:" + history)
	if fx.hasCommitment() {
		o.probe("circuit_with_commitment")
	}
	ekey := simrt.Mix(w.Seed^0xc20, uint64(tape.Raw(simrt.SWorkload)))

	// U: the proof under the stuck-at-zero entropy fault
	refKey := fmt.Sprintf("%d/%s/%d/w%d/%v", be, curve, slot, wi, statZK)
	ref := c20refs[refKey]
	if ref == nil {
		ent := w.SetEntropy(1, simrt.EntZero, 0)
		ref = &c20ref{}
		res := w.RunSim(simrt.Config{Tape: simrt.NewTape(1), Policy: simrt.PolDefault, HotPeriod: 512}, func() {
			_, ref.U, ref.Err, _ = c20Prove(fx, wi, statZK, "zero")
		})
		o.Sims = append(o.Sims, res)
		if simViolation(o, &res, where+":zero-entropy") {
			o.Viol.Msg += "\ncase: " + o.Desc
			return o
		}
		ref.draws = ent.Draws()
		c20refs[refKey] = ref
		o.fault("entropy_stuck_at_zero")
	}
	if ref.Err != "" {
		// the prover refuses to work with a dead generator: nothing unblinded can leak
		o.probe("prover_rejects_zero_entropy")
	}

	type live struct {
		elems  []elem
		err    string
		proof  any
		sc     *simrt.Scope
		failed uint64
	}
	lives := make([]*live, nproofs)
	for i := range lives {
		lives[i] = &live{}
	}
	mode, failAt := simrt.EntKeyed, uint64(0)
	switch history {
	case "entropy-error":
		mode = simrt.EntErrAfter
		n := int(ref.draws)
		if n < 1 {
			n = 1
		}
		failAt = uint64(tape.Choose(simrt.SFault, n+1))
		nproofs = 1
		lives = lives[:1]
	case "replayed-entropy":
		mode = simrt.EntRepeat
	}
	ent := w.SetEntropy(ekey, mode, failAt)
	res := w.RunSim(cfg, func() {
		if history == "concurrent" {
			done := make(chan struct{}, nproofs)
			for i := range lives {
				i := i
				simrt.Go(func() {
					defer func() { done <- struct{}{} }()
					l := lives[i]
					l.proof, l.elems, l.err, l.sc = c20Prove(fx, wi, statZK, fmt.Sprintf("live/%d", i))
				})
			}
			for range lives {
				<-done
				simrt.Yield("harness:joined")
			}
			return
		}
		for i, l := range lives {
			l.proof, l.elems, l.err, l.sc = c20Prove(fx, wi, statZK, fmt.Sprintf("live/%d", i))
		}
	})
	o.Sims = append(o.Sims, res)
	o.probe("policy:" + simrt.PolicyNames[cfg.Policy])
	if simViolation(o, &res, where+":"+history) {
		o.Viol.Msg += "\ncase: " + o.Desc
		return o
	}
	draws := ent.Draws()
	if history == "entropy-error" && ent.Failed() > 0 {
		o.fault("entropy_error_at_draw_k")
	}
	if history == "replayed-entropy" {
		o.fault("entropy_replayed_block")
	}
	// (c) entropy accounting
	if history == "sequential" || history == "concurrent" {
		min := uint64(2)
		if be == bePlonk {
			min = 4
		}
		if draws < min*uint64(nproofs) {
			o.violate("too-few-entropy-draws", "too-few-entropy-draws:"+where, fmt.Sprintf("%d proofs consumed %d entropy draws in total (at least %d per proof expected)\ncase: %s", nproofs, draws, min, o.Desc))
			return o
		}
		o.probeN("entropy_draws_"+where, int(draws))
		o.probeN("proofs_"+where, nproofs)
	}
	for i, l := range lives {
		o.Evals++
		if l.err != "" {
			if history == "entropy-error" && ent.Failed() > 0 {
				o.probe("prove_error_on_entropy_failure")
				continue
			}
			o.violate("prove-failed", "prove-failed:"+where, fmt.Sprintf("proof %d failed: %s\ncase: %s", i, l.err, o.Desc))
			return o
		}
		if history == "entropy-error" && ent.Failed() > 0 {
			o.probe("proof_despite_entropy_failure")
		}
		// (a) against U
		if ref.Err == "" && history != "replayed-entropy" {
			if len(l.elems) != len(ref.U) {
				o.violate("proof-shape", "proof-shape:"+where, fmt.Sprintf("live proof has %d elements, zero-entropy proof %d", len(l.elems), len(ref.U)))
				return o
			}
			for k, e := range l.elems {
				if !mustBeBlinded(be, e.Path, statZK) {
					if bytes.Equal(e.Bytes, ref.U[k].Bytes) {
						o.probe("unlisted_element_equal_to_unblinded")
					}
					continue
				}
				if bytes.Equal(e.Bytes, ref.U[k].Bytes) {
					cls := "unblinded-element"
					if history == "entropy-error" {
						cls = "unblinded-element-after-entropy-error"
					}
					o.violate(cls, cls+":"+where+":"+stripIndex(e.Path), fmt.Sprintf("proof %d: element %s equals the deterministic (zero-entropy) element\ncase: %s\nprog: %s", i, e.Path, o.Desc, fx.Prog))
					return o
				}
			}
		}
		// (b) against the other proofs of the history
		if history != "replayed-entropy" {
			for j := 0; j < i; j++ {
				if lives[j].err != "" {
					continue
				}
				for k, e := range l.elems {
					if mustBeBlinded(be, e.Path, statZK) && k < len(lives[j].elems) && bytes.Equal(e.Bytes, lives[j].elems[k].Bytes) {
						o.violate("repeated-blinding", "repeated-blinding:"+where+":"+stripIndex(e.Path), fmt.Sprintf("proofs %d and %d of the same witness share element %s\ncase: %s", j, i, e.Path, o.Desc))
						return o
					}
				}
			}
		} else if i > 0 && lives[0].err == "" && bytes.Equal(toBytes(l.proof), toBytes(lives[0].proof)) {
			o.probe("equal_proofs_under_replayed_entropy")
		}
		// r != s for BN254 Groth16, against the unblinded elements and the key's deltas
		if be == beGroth16 && ref.Err == "" && history != "replayed-entropy" && history != "entropy-error" {
			if msg := c20RS(fx, l.proof, ref.U); msg != "" {
				o.violate("correlated-blinders", "correlated-blinders:"+where, msg+"\ncase: "+o.Desc)
				return o
			}
		}
	}
	if o.Sample == nil {
		var paths []string
		for _, e := range ref.U {
			if mustBeBlinded(be, e.Path, statZK) {
				paths = append(paths, e.Path)
			}
		}
		o.Sample = map[string]any{"case": o.Desc, "blinded_elements_checked": paths, "entropy_draws": draws, "zero_entropy_draws": ref.draws}
	}
	return o
}

func stripIndex(p string) string {
	if i := strings.Index(p, "["); i >= 0 {
		return p[:i]
	}
	return p
}

// c20RS checks on BN254 that the Groth16 blinders r (in Ar) and s (in Bs) are different:
// Ar - Ar_U = r*[delta]_1 and Bs - Bs_U = s*[delta]_2, so r == s iff
// e(Ar - Ar_U, [delta]_2) == e([delta]_1, Bs - Bs_U).
func c20RS(fx *Fixture, proof any, u []elem) string {
	p, ok := proof.(*groth16bn254.Proof)
	if !ok {
		return ""
	}
	pk, ok := fx.PK.(*groth16bn254.ProvingKey)
	if !ok {
		return ""
	}
	var arU bn254.G1Affine
	var bsU bn254.G2Affine
	for _, e := range u {
		switch e.Path {
		case "Ar":
			if err := arU.Unmarshal(e.Bytes); err != nil {
				return ""
			}
		case "Bs":
			if err := bsU.Unmarshal(e.Bytes); err != nil {
				return ""
			}
		}
	}
	var dA bn254.G1Affine
	var dB bn254.G2Affine
	dA.Sub(&p.Ar, &arU)
	dB.Sub(&p.Bs, &bsU)
	var negDelta1 bn254.G1Affine
	negDelta1.Neg(&pk.G1.Delta)
	ok2, err := bn254.PairingCheck([]bn254.G1Affine{dA, negDelta1}, []bn254.G2Affine{pk.G2.Delta, dB})
	if err != nil {
		return ""
	}
	if ok2 {
		return "the blinders r and s of the proof are equal (e(Ar-Ar_U, delta_2) == e(delta_1, Bs-Bs_U))"
	}
	return ""
}

func init() {
	register(&Engine{Name: "c20", Prop: "C20", Run: c20Run})
}
