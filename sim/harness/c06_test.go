package harness

import (
	"bytes"
	"errors"
	"fmt"
	"math/big"
	"strings"

	"github.com/consensys/gnark-crypto/ecc"
	"github.com/consensys/gnark/backend/groth16"
	"github.com/consensys/gnark/backend/plonk"
	"github.com/consensys/gnark/backend/witness"
	"github.com/consensys/gnark/constraint"
	"github.com/consensys/gnark/constraint/solver"
	"github.com/consensys/gnark/frontend"
	"github.com/consensys/gnark/frontend/cs/r1cs"
	"github.com/consensys/gnark/frontend/cs/scs"
	"verifsim/simrt"
)

// C06: the level-parallel solver under tape-chosen schedules and task counts. Oracle on
// success: the returned vectors extend the witness and satisfy every exported R1C row /
// sparse gate under math/big arithmetic with table coefficients (csView.checkSolution), and
// equal the sequential (one task, default schedule) solution; the program's big-integer
// evaluator says whether the witness satisfies the circuit, so success on an invalid witness
// and failure on a valid one are both violations. Faults: a hint failing at invocation k.

type sField struct {
	Name  string
	Q     *big.Int
	Small bool
	Curve ecc.ID
}

func solverFields(w *Worker) []sField {
	var out []sField
	for _, c := range w.curves() {
		out = append(out, sField{Name: c.String(), Q: c.ScalarField(), Curve: c})
	}
	out = append(out,
		sField{Name: "babybear", Q: big.NewInt(2013265921), Small: true},
		sField{Name: "koalabear", Q: big.NewInt(2130706433), Small: true},
		sField{Name: "tinyfield", Q: big.NewInt(47), Small: true})
	return out
}

type sFixture struct {
	Field   sField
	Builder int // 0 r1cs, 1 scs
	Prog    *Prog
	CS      anyCS
	View    *csView
	Wits    []swit
	seq     map[int]*callResult // sequential reference result per witness
	Restored bool
}

type swit struct {
	Valid bool
	Full  witness.Witness
	Vec   []*big.Int // public then secret values
}

type sfxKey struct {
	field    string
	builder  int
	slot     int
	restored bool
}

var sfxCache = map[sfxKey]*sFixture{}

func (w *Worker) solverFixture(f sField, builder, slot int, restored bool) (*sFixture, error) {
	k := sfxKey{f.Name, builder, slot, restored}
	if fx, ok := sfxCache[k]; ok {
		return fx, nil
	}
	feat := GenFeat{Commit: !f.Small, Lookup: !f.Small, Range: !f.Small, Hint: true, Wide: true, Bits: true, ScaledBool: true, MaxOps: 10, MinOps: 2}
	ft := simrt.NewTape(simrt.Mix(w.Seed^0xc06, uint64(slot)*7+uint64(builder)))
	p, in := GenProg(ft, f.Q, feat)
	fx := &sFixture{Field: f, Builder: builder, Prog: p, seq: map[int]*callResult{}, Restored: restored}
	var err error
	if f.Small {
		var cs constraint.ConstraintSystemU32
		if builder == 0 {
			cs, err = frontend.CompileU32(f.Q, r1cs.NewBuilder[constraint.U32], NewGC(p))
		} else {
			cs, err = frontend.CompileU32(f.Q, scs.NewBuilder[constraint.U32], NewGC(p))
		}
		if err != nil {
			return nil, fmt.Errorf("compile %s over %s: %w", p, f.Name, err)
		}
		fx.CS, fx.View = cs, viewOf[constraint.U32](cs, builder == 0)
	} else {
		var cs constraint.ConstraintSystem
		if builder == 0 {
			cs, err = frontend.Compile(f.Q, r1cs.NewBuilder, NewGC(p))
		} else {
			cs, err = frontend.Compile(f.Q, scs.NewBuilder, NewGC(p))
		}
		if err != nil {
			return nil, fmt.Errorf("compile %s over %s: %w", p, f.Name, err)
		}
		if restored {
			var buf bytes.Buffer
			if _, err := cs.WriteTo(&buf); err != nil {
				return nil, err
			}
			var cs2 constraint.ConstraintSystem
			if builder == 0 {
				cs2 = groth16.NewCS(f.Curve)
			} else {
				cs2 = plonk.NewCS(f.Curve)
			}
			if _, err := cs2.ReadFrom(&buf); err != nil {
				return nil, fmt.Errorf("restoring the system from its own bytes: %w", err)
			}
			cs = cs2
		}
		fx.CS, fx.View = cs, viewOf[constraint.U64](cs, builder == 0)
	}
	add := func(in []*big.Int, brk int) error {
		a := p.Assign(in, f.Q, brk)
		full, err := frontend.NewWitness(a, f.Q)
		if err != nil {
			return err
		}
		var vec []*big.Int
		for _, x := range a.P {
			vec = append(vec, x.(*big.Int))
		}
		for _, x := range a.S {
			vec = append(vec, x.(*big.Int))
		}
		fx.Wits = append(fx.Wits, swit{Valid: brk < 0, Full: full, Vec: vec})
		return nil
	}
	if err := add(in, -1); err != nil {
		return nil, err
	}
	for tries := 0; len(fx.Wits) < 3 && tries < 20; tries++ {
		in2 := make([]*big.Int, len(in))
		for i := range in {
			in2[i] = new(big.Int).Set(in[i])
		}
		j := ft.Choose(simrt.SWorkload, len(in))
		in2[j] = drawValue(ft, f.Q)
		if !p.ValidInputs(in2, f.Q) {
			continue
		}
		if err := add(in2, -1); err != nil {
			return nil, err
		}
	}
	if err := add(in, 0); err != nil {
		return nil, err
	}
	sfxCache[k] = fx
	return fx, nil
}

// very wide levels: the level-parallel path of the solver splits a level among the workers; the
// split has corner cases that only show for thousands of instructions in one level and dozens of
// workers. Level 0: K multiplications (x+i)*y (each solves a wire); level 1: K assertions
// "product_i == c + i*y", the last `tail` of them against a second public input c2 (= c in a
// valid witness), so that a broken c2 violates only the tail of the level.
type wideLevelCircuit struct {
	X, Y  frontend.Variable
	C, C2 frontend.Variable `gnark:",public"`
	k     int
	tail  int
}

func (c *wideLevelCircuit) Define(api frontend.API) error {
	for i := 0; i < c.k; i++ {
		p := api.Mul(api.Add(c.X, i), c.Y)
		rhs := c.C
		if i >= c.k-c.tail {
			rhs = c.C2
		}
		api.AssertIsEqual(p, api.Add(rhs, api.Mul(c.Y, i)))
	}
	return nil
}

type wideFx struct {
	cs    constraint.ConstraintSystem
	view  *csView
	valid witness.Witness
	bad   witness.Witness
	vecs  [2][]*big.Int
	err   error
}

var wideCache = map[string]*wideFx{}

var wideLevels = []int{3255, 3300, 3711, 4001, 4090, 3160, 2500, 777}

func wideFixture(curve ecc.ID, builder, k int) *wideFx {
	key := fmt.Sprintf("%s/%d/%d", curve, builder, k)
	if f, ok := wideCache[key]; ok {
		return f
	}
	f := &wideFx{}
	wideCache[key] = f
	q := curve.ScalarField()
	tpl := &wideLevelCircuit{k: k, tail: 20}
	if builder == 0 {
		f.cs, f.err = frontend.Compile(q, r1cs.NewBuilder, tpl)
	} else {
		f.cs, f.err = frontend.Compile(q, scs.NewBuilder, tpl)
	}
	if f.err != nil {
		return f
	}
	f.view = viewOf[constraint.U64](f.cs, builder == 0)
	for i, c2 := range []int64{35, 36} {
		a := &wideLevelCircuit{X: 5, Y: 7, C: 35, C2: c2, k: k, tail: 20}
		var w witness.Witness
		if w, f.err = frontend.NewWitness(a, q); f.err != nil {
			return f
		}
		if i == 0 {
			f.valid = w
		} else {
			f.bad = w
		}
		f.vecs[i] = []*big.Int{big.NewInt(35), big.NewInt(c2), big.NewInt(5), big.NewInt(7)}
	}
	return f
}

var wideTasks = []int{1, 16, 50, 64, 70, 96, 128}

func c06Wide(w *Worker, tape *simrt.Tape, o *Outcome) *Outcome {
	ch := func(n int) int { return tape.Choose(simrt.SWorkload, n) }
	curve := w.curves()[0]
	builder := ch(2)
	k := wideLevels[ch(len(wideLevels))]
	nb := wideTasks[ch(len(wideTasks))]
	bad := ch(2) == 1
	f := wideFixture(curve, builder, k)
	bn := []string{"r1cs", "scs"}[builder]
	where := "solver:" + bn + ":wide-level"
	o.Desc = fmt.Sprintf("%s/%s wide level of %d instructions, tasks=%d, witness valid=%v", curve, bn, k, nb, !bad)
	o.NonTrivial = true
	o.probe("wide_level")
	if f.err != nil {
		o.violate("fixture", "fixture:"+where, f.err.Error())
		return o
	}
	wit, vec := f.valid, f.vecs[0]
	if bad {
		wit, vec = f.bad, f.vecs[1]
	}
	cfg := drawPolicy(tape)
	cfg.HotPeriod = 512
	var sol any
	var err error
	res := w.RunSim(cfg, func() { sol, err = f.cs.Solve(wit, solver.WithNbTasks(nb)) })
	o.Sims = append(o.Sims, res)
	o.Evals++
	if simViolation(o, &res, where) {
		o.Viol.Msg += "\ncase: " + o.Desc
		return o
	}
	switch {
	case bad && err == nil:
		o.violate("wrong-verdict", "wrong-verdict:"+where, "Solve succeeded although the last assertions of the wide level are violated\ncase: "+o.Desc)
	case !bad && err != nil:
		o.violate("wrong-verdict", "wrong-verdict:"+where, "Solve of a valid witness failed: "+err.Error()+"\ncase: "+o.Desc)
	case !bad:
		if msg := f.view.checkSolution(toBytes(sol), vec); msg != "" {
			o.violate("bad-solution", "bad-solution:"+where, msg+"\ncase: "+o.Desc)
		}
	}
	if o.Viol != nil {
		o.Viol.Trace = res.Trace
	}
	return o
}

var errInjectedHint = errors.New("injected hint failure")

var c06Tasks = []int{1, 2, 3, 5, 16, 64, 512}

func c06Run(w *Worker, tape *simrt.Tape) *Outcome {
	o := &Outcome{}
	ch := func(n int) int { return tape.Choose(simrt.SWorkload, n) }
	if ch(8) == 0 {
		return c06Wide(w, tape, o)
	}
	fields := solverFields(w)
	var f sField
	switch ch(4) {
	case 0: // a small field
		f = fields[len(fields)-3+ch(3)]
	default:
		nc := len(fields) - 3
		f = fields[0]
		if ch(3) == 0 {
			f = fields[ch(nc)]
		}
	}
	builder := ch(2)
	slot := ch(w.paramInt("slots", 40))
	restored := !f.Small && ch(4) == 0
	fx, err := w.solverFixture(f, builder, slot, restored)
	if err != nil {
		o.probe("fixture_skipped") // the generated program does not compile (e.g. commits to a constant): not a case
		o.Desc = "skipped: " + err.Error()
		return o
	}
	// the commitment placeholder hint draws entropy in whichever solver task executes it; the
	// "repeat" stub hands every draw the same block, so the solution does not depend on who draws
	w.SetEntropy(simrt.Mix(w.Seed^0xc06, uint64(slot)), simrt.EntRepeat, 0)
	cfg := drawPolicy(tape)
	nb := c06Tasks[ch(len(c06Tasks))]
	wi := ch(len(fx.Wits))
	wrongSize := ch(12) == 0
	hintFault := fx.Prog.hasOp(opHintSq) && tape.Choose(simrt.SFault, 4) == 1
	failAt := 0
	if hintFault {
		failAt = tape.Choose(simrt.SFault, 3)
	}
	bn := []string{"r1cs", "scs"}[builder]
	o.Desc = fmt.Sprintf("%s/%s/slot%d[%s] w%d tasks=%d restored=%v wrongsize=%v hintfault=%v@%d", f.Name, bn, slot, fx.Prog.Kinds(), wi, nb, restored, wrongSize, hintFault, failAt)
	o.NonTrivial = true
	where := "solver:" + bn

	// sequential reference (one task, default schedule), cached per witness
	seq := fx.seq[wi]
	if seq == nil {
		var r *callResult
		res := w.RunSim(simrt.Config{Tape: simrt.NewTape(1), Policy: simrt.PolDefault, HotPeriod: 512}, func() {
			r = solveOnce(fx, fx.Wits[wi].Full, fmt.Sprintf("solve/w%d", wi), solver.WithNbTasks(1))
		})
		if res.Panic != "" || res.Deadlock || r == nil {
			o.violate("solo-crash", "solo-crash:"+where, "sequential solve crashes: "+res.Panic+" "+strings.Join(res.Blocked, ",")+"\nprog: "+fx.Prog.String())
			return o
		}
		seq = r
		fx.seq[wi] = seq
		// the sequential result itself is checked against program semantics and constraints
		if fx.Wits[wi].Valid != (seq.ErrClass == "") {
			o.violate("wrong-verdict", "wrong-verdict:"+where, fmt.Sprintf("sequential solve of a %v witness returned %s\ncase: %s\nprog: %s", fx.Wits[wi].Valid, seq.short(), o.Desc, fx.Prog))
			return o
		}
		if seq.ErrClass == "" {
			if msg := fx.View.checkSolution(seq.Bytes, fx.Wits[wi].Vec); msg != "" {
				o.violate("bad-solution", "bad-solution:"+where, "sequential solve returned a non-satisfying assignment: "+msg+"\ncase: "+o.Desc+"\nprog: "+fx.Prog.String())
				return o
			}
		}
	}

	full := fx.Wits[wi].Full
	if wrongSize {
		// the witness of another fixture with a different number of inputs
		ofx, err := w.solverFixture(f, builder, (slot+1)%w.paramInt("slots", 40), false)
		if err == nil && len(ofx.Wits[0].Vec) != len(fx.Wits[wi].Vec) {
			full = ofx.Wits[0].Full
			o.fault("wrong_size_witness")
		} else {
			wrongSize = false
		}
	}
	opts := []solver.Option{solver.WithNbTasks(nb)}
	calls := 0
	if hintFault {
		id := solver.GetHintID(squareHint)
		opts = append(opts, solver.OverrideHint(id, func(q *big.Int, in, out []*big.Int) error {
			calls++
			if calls-1 == failAt {
				return errInjectedHint
			}
			return squareHint(q, in, out)
		}))
	}
	var got *callResult
	res := w.RunSim(cfg, func() {
		got = solveOnce(fx, full, fmt.Sprintf("solve/w%d", wi), opts...)
	})
	o.Sims = append(o.Sims, res)
	o.Evals++
	o.probe("policy:" + simrt.PolicyNames[cfg.Policy])
	o.probe("field:" + f.Name)
	if restored {
		o.probe("restored_from_bytes")
	}
	if n := res.SiteCount["send:"+f.pkgDir()+"/solver.go:504"]; n > 0 {
		o.probe("parallel_level_path")
	}
	for s, n := range res.SiteCount {
		if strings.HasPrefix(s, "send:") && strings.Contains(s, "/solver.go:") && n > 0 {
			o.probe("solver_task_sent")
			break
		}
	}
	if simViolation(o, &res, where) {
		o.Viol.Msg += "\ncase: " + o.Desc + "\nprog: " + fx.Prog.String()
		return o
	}
	if got == nil {
		o.violate("no-result", "no-result:"+where, "Solve did not return\ncase: "+o.Desc)
		return o
	}
	injected := hintFault && calls > failAt
	if injected {
		o.fault("hint_error")
	}
	switch {
	case wrongSize:
		if got.ErrClass != "witness-size" {
			o.violate("wrong-size-accepted", "wrong-size-accepted:"+where, "Solve with a witness of the wrong size returned "+got.short()+"\ncase: "+o.Desc)
		}
	case injected:
		if got.ErrClass == "" {
			o.violate("hint-error-swallowed", "hint-error-swallowed:"+where, "a hint returned an error but Solve succeeded\ncase: "+o.Desc+"\nprog: "+fx.Prog.String())
		} else if !strings.Contains(got.Err, errInjectedHint.Error()) && seq.ErrClass == "" {
			o.violate("hint-error-misreported", "hint-error-misreported:"+where, "Solve failed with "+got.short()+" although the only fault was the hint error\ncase: "+o.Desc)
		}
	default:
		if got.ErrClass == "" {
			if msg := fx.View.checkSolution(got.Bytes, fx.Wits[wi].Vec); msg != "" {
				o.violate("bad-solution", "bad-solution:"+where, msg+"\ncase: "+o.Desc+"\nprog: "+fx.Prog.String())
				return o
			}
		}
		if !got.equal(seq) {
			o.violate("result-differs-from-sequential", "result-differs-from-sequential:"+where, fmt.Sprintf("tasks=%d: %s, sequential: %s\ncase: %s\nprog: %s", nb, got.short(), seq.short(), o.Desc, fx.Prog))
		}
	}
	if o.Viol != nil {
		o.Viol.Trace = res.Trace
	}
	if o.Sample == nil {
		o.Sample = map[string]any{"case": o.Desc, "policy": simrt.PolicyNames[cfg.Policy], "steps": res.Steps, "tasks": res.Tasks, "constraints": fx.CS.GetNbConstraints(), "result": got.short()}
	}
	return o
}

func (f sField) pkgDir() string {
	return strings.ReplaceAll(f.Name, "_", "-")
}

func (p *Prog) hasOp(k int) bool {
	for _, o := range p.Ops {
		if o.Kind == k {
			return true
		}
	}
	return false
}

func solveOnce(fx *sFixture, full witness.Witness, scope string, opts ...solver.Option) *callResult {
	sc := simrt.SetScope(scope)
	res := &callResult{}
	defer func() { res.Ambiguous = sc.Ambiguous() }()
	sol, err := fx.CS.Solve(full, opts...)
	if err != nil {
		res.ErrClass, res.Err = errClass(err), err.Error()
	} else {
		res.Bytes = toBytes(sol)
	}
	return res
}

func init() {
	register(&Engine{Name: "c06", Prop: "C06", Run: c06Run})
}
