package harness

import (
	"crypto/sha256"
	"errors"
	"fmt"
	"math/big"
	"regexp"
	"sort"
	"strings"

	"github.com/consensys/gnark/backend/witness"
	"github.com/consensys/gnark/constraint"
	"github.com/consensys/gnark/constraint/solver"
	"github.com/consensys/gnark/constraint/verifhook"
	"github.com/consensys/gnark/frontend"
	"github.com/consensys/gnark/frontend/cs/r1cs"
	"github.com/consensys/gnark/frontend/cs/scs"
	"github.com/consensys/gnark/test"
	"verifsim/simrt"
)

// The hint nemesis (S6): every hint the solver (or the test engine) calls goes through
// verifhook.WrapHint. A fault-free pass records every invocation; a faulty pass replaces the
// answer of tape-chosen invocations with perturbed, misdirected, replayed, compensated or
// failed answers. Gadget outputs are exported through a no-op "probe" hint so that the oracle
// sees the values the solver actually assigned.

type hintCall struct {
	ID   solver.HintID
	Name string
	In   []*big.Int
	Out  []*big.Int
}

type nemesis struct {
	q      *big.Int
	calls  []hintCall // recorded in call order
	probes map[int][]*big.Int
	// fault plan: call index -> strategy
	plan   map[int]func(n *nemesis, idx int, f solver.Hint, q *big.Int, in, out []*big.Int) error
	fired  []string
	serial int
	honest []hintCall // the recording of the fault-free pass (for replayed / misdirected answers)
}

var errNemesis = errors.New("nemesis: injected hint failure")

var reEdge = regexp.MustCompile(`edge\[([^\]]+)\]`)

var probeID = solver.GetHintID(probeHint)

var curNemesis *nemesis

// probeHint exports values to the harness: in[0] is the tag.
func probeHint(q *big.Int, in, out []*big.Int) error {
	if n := curNemesis; n != nil {
		vals := make([]*big.Int, len(in)-1)
		for i := range vals {
			vals[i] = new(big.Int).Set(in[i+1])
		}
		n.probes[int(in[0].Int64())] = vals
	}
	out[0].SetUint64(0)
	return nil
}

// probe exports the values of vars under tag.
func probe(api frontend.API, tag int, vars ...frontend.Variable) {
	in := append([]frontend.Variable{tag}, vars...)
	if _, err := api.Compiler().NewHint(probeHint, 1, in...); err != nil {
		panic(err)
	}
}

// hashCommitHint stands in for the commitment placeholder in solver-only runs: the challenge
// is a hash of everything committed, as under Fiat-Shamir.
func hashCommitHint(q *big.Int, in, out []*big.Int) error {
	h := sha256.New()
	for _, x := range in {
		h.Write(x.Bytes())
		h.Write([]byte{0xff})
	}
	out[0].SetBytes(h.Sum(nil))
	out[0].Mod(out[0], q)
	return nil
}

func init() {
	solver.RegisterHint(probeHint)
}

func copyInts(v []*big.Int) []*big.Int {
	out := make([]*big.Int, len(v))
	for i := range v {
		out[i] = new(big.Int).Set(v[i])
	}
	return out
}

// install makes n the active nemesis (and returns a function that removes it).
func (n *nemesis) install() func() {
	curNemesis = n
	n.probes = map[int][]*big.Int{}
	n.calls = nil
	n.serial = 0
	bsb := solver.GetHintID(commitPlaceholder)
	verifhook.WrapHint = func(id solver.HintID, f solver.Hint) solver.Hint {
		if id == probeID {
			return f
		}
		if id == bsb {
			f = hashCommitHint
		}
		return func(q *big.Int, in, out []*big.Int) error {
			idx := n.serial
			n.serial++
			rec := hintCall{ID: id, In: copyInts(in), Name: solver.GetHintName(f)}
			var err error
			if s, ok := n.plan[idx]; ok && id != bsb {
				err = s(n, idx, f, q, in, out)
			} else {
				err = f(q, in, out)
			}
			for _, o := range out {
				if o == nil {
					rec.Out = append(rec.Out, nil)
				} else {
					rec.Out = append(rec.Out, new(big.Int).Set(o))
				}
			}
			n.calls = append(n.calls, rec)
			return err
		}
	}
	return func() { verifhook.WrapHint = nil; curNemesis = nil }
}

// strategies ----------------------------------------------------------------------------

type strategy struct {
	Name string
	Make func(tape *simrt.Tape) func(n *nemesis, idx int, f solver.Hint, q *big.Int, in, out []*big.Int) error
}

func modq(x, q *big.Int) *big.Int { return x.Mod(x, q) }

var widths = []uint{1, 2, 8, 16, 32, 64}

var strategies = []strategy{
	{"perturb-output", func(tape *simrt.Tape) func(*nemesis, int, solver.Hint, *big.Int, []*big.Int, []*big.Int) error {
		how := tape.Choose(simrt.SFault, 7)
		pos := tape.Raw(simrt.SFault)
		bit := tape.Choose(simrt.SFault, 64)
		rnd := tape.Raw(simrt.SFault)
		return func(n *nemesis, idx int, f solver.Hint, q *big.Int, in, out []*big.Int) error {
			if err := f(q, in, out); err != nil {
				return err
			}
			if len(out) == 0 {
				return nil
			}
			o := out[int(pos)%len(out)]
			switch how {
			case 0:
				o.Add(o, big.NewInt(1))
			case 1:
				o.Sub(o, big.NewInt(1))
			case 2:
				o.SetUint64(0)
			case 3:
				o.SetUint64(1)
			case 4:
				o.Sub(q, big.NewInt(1))
			case 5:
				o.SetBit(o, bit%q.BitLen(), o.Bit(bit%q.BitLen())^1)
			default:
				o.SetUint64(uint64(rnd))
			}
			modq(o, q)
			return nil
		}
	}},
	{"swap-outputs", func(tape *simrt.Tape) func(*nemesis, int, solver.Hint, *big.Int, []*big.Int, []*big.Int) error {
		a, b := tape.Raw(simrt.SFault), tape.Raw(simrt.SFault)
		return func(n *nemesis, idx int, f solver.Hint, q *big.Int, in, out []*big.Int) error {
			if err := f(q, in, out); err != nil {
				return err
			}
			if len(out) >= 2 {
				i, j := int(a)%len(out), int(b)%len(out)
				if i == j {
					j = (i + 1) % len(out)
				}
				out[i], out[j] = out[j], out[i]
			}
			return nil
		}
	}},
	{"misdirected", func(tape *simrt.Tape) func(*nemesis, int, solver.Hint, *big.Int, []*big.Int, []*big.Int) error {
		how := tape.Choose(simrt.SFault, 4)
		pos := tape.Raw(simrt.SFault)
		other := tape.Raw(simrt.SFault)
		return func(n *nemesis, idx int, f solver.Hint, q *big.Int, in, out []*big.Int) error {
			in2 := copyInts(in)
			if len(in2) > 0 {
				i := int(pos) % len(in2)
				switch how {
				case 0:
					in2[i].Add(in2[i], big.NewInt(1))
					modq(in2[i], q)
				case 1:
					in2[i].Sub(in2[i], big.NewInt(1))
					modq(in2[i], q)
				case 2:
					j := (i + 1) % len(in2)
					// do not feed a large value into a parameter-like position (a width, a count):
					// hint functions allocate from those
					if (in2[i].BitLen() > 24) == (in2[j].BitLen() > 24) {
						in2[i], in2[j] = in2[j], in2[i]
					}
				default: // the inputs of another invocation of the same hint
					var same []hintCall
					for _, c := range n.honest {
						if idx < len(n.honest) && c.ID == n.honest[idx].ID && len(c.In) == len(in) {
							same = append(same, c)
						}
					}
					if len(same) > 0 {
						in2 = copyInts(same[int(other)%len(same)].In)
					}
				}
			}
			return safeHint(f, q, in, in2, out)
		}
	}},
	{"replayed", func(tape *simrt.Tape) func(*nemesis, int, solver.Hint, *big.Int, []*big.Int, []*big.Int) error {
		other := tape.Raw(simrt.SFault)
		return func(n *nemesis, idx int, f solver.Hint, q *big.Int, in, out []*big.Int) error {
			if err := f(q, in, out); err != nil {
				return err
			}
			var same []hintCall
			for k, c := range n.honest {
				if idx < len(n.honest) && k != idx && c.ID == n.honest[idx].ID && len(c.Out) == len(out) {
					same = append(same, c)
				}
			}
			if len(same) > 0 {
				src := same[int(other)%len(same)]
				for i := range out {
					if src.Out[i] != nil {
						out[i].Set(src.Out[i])
					}
				}
			}
			return nil
		}
	}},
	{"compensated-shift", func(tape *simrt.Tape) func(*nemesis, int, solver.Hint, *big.Int, []*big.Int, []*big.Int) error {
		// move one unit of the next digit into this digit: (d_i + B, d_{i+1} - 1), for B = 2^w
		w := widths[tape.Choose(simrt.SFault, len(widths))]
		pos := tape.Raw(simrt.SFault)
		down := tape.Choose(simrt.SFault, 2) == 1
		return func(n *nemesis, idx int, f solver.Hint, q *big.Int, in, out []*big.Int) error {
			if err := f(q, in, out); err != nil {
				return err
			}
			if len(out) < 2 {
				return nil
			}
			i := int(pos) % (len(out) - 1)
			b := new(big.Int).Lsh(big.NewInt(1), w)
			if down {
				out[i].Sub(out[i], b)
				out[i+1].Add(out[i+1], big.NewInt(1))
			} else {
				out[i].Add(out[i], b)
				out[i+1].Sub(out[i+1], big.NewInt(1))
			}
			modq(out[i], q)
			modq(out[i+1], q)
			return nil
		}
	}},
	{"modular-alias", func(tape *simrt.Tape) func(*nemesis, int, solver.Hint, *big.Int, []*big.Int, []*big.Int) error {
		// the honest hint evaluated on input + q: the same field element, another integer
		pos := tape.Raw(simrt.SFault)
		return func(n *nemesis, idx int, f solver.Hint, q *big.Int, in, out []*big.Int) error {
			in2 := copyInts(in)
			if len(in2) > 0 {
				i := int(pos) % len(in2)
				in2[i].Add(in2[i], q)
			}
			if err := safeHint(f, q, in, in2, out); err != nil {
				return err
			}
			for _, o := range out {
				modq(o, q)
			}
			return nil
		}
	}},
	{"quotient-shift", func(tape *simrt.Tape) func(*nemesis, int, solver.Hint, *big.Int, []*big.Int, []*big.Int) error {
		// (k+1, r-p) / (k-1, r+p) for a modulus p taken from the inputs (or a small constant)
		pos := tape.Raw(simrt.SFault)
		sign := tape.Choose(simrt.SFault, 2)
		pi := tape.Raw(simrt.SFault)
		return func(n *nemesis, idx int, f solver.Hint, q *big.Int, in, out []*big.Int) error {
			if err := f(q, in, out); err != nil {
				return err
			}
			if len(out) < 2 || len(in) == 0 {
				return nil
			}
			p := in[int(pi)%len(in)]
			i := int(pos) % (len(out) - 1)
			if sign == 0 {
				out[i].Add(out[i], big.NewInt(1))
				out[i+1].Sub(out[i+1], p)
			} else {
				out[i].Sub(out[i], big.NewInt(1))
				out[i+1].Add(out[i+1], p)
			}
			modq(out[i], q)
			modq(out[i+1], q)
			return nil
		}
	}},
	{"sign-flip", func(tape *simrt.Tape) func(*nemesis, int, solver.Hint, *big.Int, []*big.Int, []*big.Int) error {
		pos := tape.Raw(simrt.SFault)
		all := tape.Choose(simrt.SFault, 2) == 1
		return func(n *nemesis, idx int, f solver.Hint, q *big.Int, in, out []*big.Int) error {
			if err := f(q, in, out); err != nil {
				return err
			}
			for i, o := range out {
				if all || i == int(pos)%len(out) {
					o.Neg(o)
					modq(o, q)
				}
			}
			return nil
		}
	}},
	{"hint-error", func(tape *simrt.Tape) func(*nemesis, int, solver.Hint, *big.Int, []*big.Int, []*big.Int) error {
		return func(n *nemesis, idx int, f solver.Hint, q *big.Int, in, out []*big.Int) error {
			return errNemesis
		}
	}},
}

// constAll answers every output with the constant v (the degenerate decomposition).
func constAll(v int64) func(n *nemesis, idx int, f solver.Hint, q *big.Int, in, out []*big.Int) error {
	return func(n *nemesis, idx int, f solver.Hint, q *big.Int, in, out []*big.Int) error {
		if err := f(q, in, out); err != nil {
			return err
		}
		for _, o := range out {
			o.SetInt64(v)
		}
		return nil
	}
}

// echoInputs answers with the window of the hint's own inputs starting at off.
func echoInputs(off int) func(n *nemesis, idx int, f solver.Hint, q *big.Int, in, out []*big.Int) error {
	return func(n *nemesis, idx int, f solver.Hint, q *big.Int, in, out []*big.Int) error {
		if err := f(q, in, out); err != nil {
			return err
		}
		for i := range out {
			if off+i < len(in) {
				out[i].Set(in[off+i])
			}
		}
		return nil
	}
}

// perturbFirst adds one to the first output.
func perturbFirst(n *nemesis, idx int, f solver.Hint, q *big.Int, in, out []*big.Int) error {
	if err := f(q, in, out); err != nil {
		return err
	}
	if len(out) > 0 {
		out[0].Add(out[0], big.NewInt(1))
		modq(out[0], q)
	}
	return nil
}

// safeHint evaluates the honest hint on altered inputs in2; hint functions are prover-side
// code that may legitimately panic or fail on inputs no circuit would hand them, in which case
// the honest answer for the real inputs is used instead.
func safeHint(f solver.Hint, q *big.Int, in, in2, out []*big.Int) (err error) {
	saved := copyInts(out)
	failed := false
	func() {
		defer func() {
			if r := recover(); r != nil {
				failed = true
			}
		}()
		if e := f(q, in2, out); e != nil {
			failed = true
		}
	}()
	if failed {
		// hints may be stateful closures (GKR): never call them a second time; the fault degrades
		// to a failed answer
		for i := range out {
			if out[i] == nil {
				out[i] = new(big.Int)
			}
			out[i].Set(saved[i])
		}
		return errNemesis
	}
	return nil
}

// gadget cases ---------------------------------------------------------------------------

// gcase is one circuit under the nemesis.
type gcase struct {
	Name    string
	Circuit frontend.Circuit // template
	// Assign draws an assignment and returns it with the oracle: given the probed values it
	// reports "" if they are what the gadget documents for the assigned inputs. sat says
	// whether the circuit must be satisfiable with honest hints.
	Assign func(tape *simrt.Tape, q *big.Int) (a frontend.Circuit, sat bool, check func(p map[int][]*big.Int) string, desc string)
	// NoCommit: only builders / fields without commitment support are meaningful, or vice versa
	NeedsCommit bool
	SmallOK     bool // compiles over the 47-element field
	EngineOnly  bool // too large to compile in the quick tier: evaluated on the test engine
	// Classify refines the key of a wrong-output-accepted violation from the faulted calls
	// (so that a recorded known finding stays specific)
	Classify func(honest, faulted []hintCall, planned map[int]bool, q *big.Int) string
	// Field pins the native field of the case (gadgets tied to one native curve)
	Field *sField
	// MaxFaults caps the faulty plans per run (expensive circuits)
	MaxFaults int
	// Focus marks the hints the property is about (by function name): half of the fault sites
	// are drawn among their invocations, so that they are not drowned by the thousands of
	// arithmetic hints of an emulated circuit
	Focus func(name string) bool
	// Combo enables the degenerate-answer phase: every focused invocation answered with all
	// zeros (and all ones) while another focused invocation is perturbed
	Combo bool
	// FocusOnly: fault sites are drawn among the focused invocations only (the other hints
	// of the circuit belong to another property)
	FocusOnly bool
	// Unique: the gadget promises a single satisfying output even outside its domain (the
	// documentation says "deterministic"): two satisfied runs of the same inputs must show the
	// same probed values
	Unique bool
	// MayNotCompile: the gadget may reject the configuration at compile time (documented panic)
	MayNotCompile bool
	// BaseCheck inspects the hint calls of the honest pass on a compiled system (e.g. whether
	// everything the prover could choose was committed before the challenge); "" = fine
	BaseCheck func(honest []hintCall) string
	// PostCheck inspects every faulted run, accepted or not (e.g. whether a Fiat-Shamir challenge
	// still depends on the values the prover was made to change); "" = fine
	PostCheck func(honest, faulted []hintCall, planned map[int]bool) string
}

type compiled struct {
	cs   anyCS
	err  error
	solve func(w witness.Witness, opts ...solver.Option) error
}

var gcompiled = map[string]*compiled{}

func compileCase(gc *gcase, q *big.Int, small bool, builder int) *compiled {
	key := fmt.Sprintf("%s/%s/%d", gc.Name, q.String(), builder)
	if c, ok := gcompiled[key]; ok {
		return c
	}
	c := &compiled{}
	func() {
		defer func() {
			if r := recover(); r != nil {
				c.err = fmt.Errorf("compile panic: %v", r)
			}
		}()
		if small {
			var cs constraint.ConstraintSystemU32
			if builder == 0 {
				cs, c.err = frontend.CompileU32(q, r1cs.NewBuilder[constraint.U32], gc.Circuit, frontend.IgnoreUnconstrainedInputs())
			} else {
				cs, c.err = frontend.CompileU32(q, scs.NewBuilder[constraint.U32], gc.Circuit, frontend.IgnoreUnconstrainedInputs())
			}
			if c.err == nil {
				c.cs = cs
			}
		} else {
			var cs constraint.ConstraintSystem
			if builder == 0 {
				cs, c.err = frontend.Compile(q, r1cs.NewBuilder, gc.Circuit, frontend.IgnoreUnconstrainedInputs())
			} else {
				cs, c.err = frontend.Compile(q, scs.NewBuilder, gc.Circuit, frontend.IgnoreUnconstrainedInputs())
			}
			if c.err == nil {
				c.cs = cs
			}
		}
	}()
	gcompiled[key] = c
	return c
}

// runCase executes the circuit once under nemesis n: on the compiled system (builder 0/1) or
// on the test engine (builder 2). Returns the solver's verdict.
func runCase(n *nemesis, gc *gcase, comp *compiled, a frontend.Circuit, q *big.Int, builder int) (err error, panicked string) {
	undo := n.install()
	defer undo()
	panicked = guard(func() {
		if builder == 2 {
			err = test.IsSolved(gc.Circuit, a, q)
			return
		}
		var w witness.Witness
		w, err = frontend.NewWitness(a, q)
		if err != nil {
			return
		}
		_, err = comp.cs.Solve(w, solver.WithNbTasks(1))
	})
	if panicked != "" && strings.Contains(panicked, "NewHint: "+errNemesis.Error()) {
		// the test engine reports a failing hint by panicking
		return errNemesis, ""
	}
	return
}

// nemesisRun is the shared body of the hint-nemesis engines: it picks a case, runs it
// fault-free, then under nfaults faulty plans.
func nemesisRun(w *Worker, tape *simrt.Tape, prop string, cases []*gcase, fields []sField) *Outcome {
	o := &Outcome{}
	ch := func(n int) int { return tape.Choose(simrt.SWorkload, n) }
	gc := cases[ch(len(cases))]
	f := fields[ch(len(fields))]
	if f.Small && !gc.SmallOK {
		f = fields[0]
	}
	if gc.Field != nil {
		f = *gc.Field
	}
	builder := ch(2)
	if gc.EngineOnly {
		builder = 2
	}
	bn := []string{"r1cs", "scs", "engine"}[builder]
	where := gc.Name + ":" + bn
	w.SetEntropy(simrt.Mix(w.Seed, hash64(gc.Name)), simrt.EntRepeat, 0)
	var comp *compiled
	if builder != 2 {
		comp = compileCase(gc, f.Q, f.Small, builder)
		if comp.err != nil {
			if f.Small {
				o.probe("case_not_compilable_here")
				o.Desc = "skipped: " + comp.err.Error()
				return o
			}
			if gc.MayNotCompile {
				o.probe("configuration_rejected_at_compile_time")
				o.Desc = "rejected at compile time: " + gc.Name
				return o
			}
			o.violate("compile-failed", "compile-failed:"+where, comp.err.Error())
			return o
		}
	}
	a, sat, check, adesc := gc.Assign(tape, f.Q)
	o.Desc = fmt.Sprintf("%s/%s/%s %s", gc.Name, f.Name, bn, adesc)
	o.NonTrivial = true
	o.probe("case:" + gc.Name)
	o.probe("field:" + f.Name)
	// fault-free pass
	base := &nemesis{q: f.Q}
	err, pan := runCase(base, gc, comp, a, f.Q, builder)
	o.Evals++
	if pan != "" {
		o.violate("solver-panic", "solver-panic:"+where+":"+panicSite(pan), "fault-free run panicked: "+pan+"\ncase: "+o.Desc)
		return o
	}
	free := strings.HasPrefix(adesc, "free-verdict:")
	if free {
		// the documentation leaves the verdict open for these inputs (0/0 of the unchecked division)
		sat = err == nil
	}
	if (err == nil) != sat {
		bkey := "baseline-verdict:" + where
		if m := reEdge.FindStringSubmatch(adesc); m != nil {
			bkey += ":" + m[1]
		}
		if o.violateOrKnown(w, "baseline-verdict", bkey, fmt.Sprintf("with honest hints the circuit is %s but the oracle expects satisfiable=%v (err=%v)\ncase: %s", map[bool]string{true: "satisfied", false: "unsatisfied"}[err == nil], sat, err, o.Desc)) {
			return o
		}
		o.Desc += " (known baseline finding)"
		return o
	}
	if err == nil {
		if msg := check(base.probes); msg != "" {
			o.violate("baseline-wrong-output", "baseline-wrong-output:"+where, "with honest hints: "+msg+"\ncase: "+o.Desc)
			return o
		}
	}
	var firstAccepted map[int][]*big.Int
	if err == nil {
		firstAccepted = base.probes
	}
	if gc.BaseCheck != nil && builder != 2 && err == nil {
		o.probe("base_check_evaluated")
		if msg := gc.BaseCheck(base.calls); msg != "" {
			if o.violateOrKnown(w, "challenge-not-bound", "challenge-not-bound:"+where, msg+"\ncase: "+o.Desc) {
				return o
			}
		}
	}
	ncalls := len(base.calls)
	o.probeN("hint_calls", ncalls)
	if gc.FocusOnly {
		nf := 0
		for _, c := range base.calls {
			if gc.Focus(c.Name) {
				nf++
			}
		}
		if nf == 0 {
			ncalls = 0
		}
	}
	if ncalls == 0 {
		o.probe("no_hint_to_fault")
		return o
	}
	nfaults := w.paramInt("faults", 24)
	if gc.MaxFaults > 0 && nfaults > gc.MaxFaults && !w.Thorough {
		nfaults = gc.MaxFaults
	}
	var focused []int
	if gc.Focus != nil {
		for i, c := range base.calls {
			if gc.Focus(c.Name) {
				focused = append(focused, i)
			}
		}
		o.probeN("focused_hint_calls", len(focused))
	}
	// degenerate-answer plans (Combo): (zero-all | one-all)@i + perturb@j over focused pairs
	type comboPlan struct{ i, j, kind int }
	const kindEcho = 100 // kind >= kindEcho: echo the input window starting at kind-kindEcho
	var combos []comboPlan
	if gc.Combo && len(focused) > 0 {
		fc := focused
		if len(fc) > 6 {
			fc = fc[:6]
		}
		for _, i := range fc {
			// "echo the question": the answer is a window of the hint's own inputs (e.g. the
			// base point given back as the product), at element-aligned offsets
			c := base.calls[i]
			step, first := 1, 0
			if _, nl, _, ok := emuLayout(c.In, c.Out); ok {
				step, first = nl, 2+nl
				// emulated inputs may carry a count / length prefix per element: try both alignments
			}
			nEcho := 0
			maxEcho := 12
			if gc.EngineOnly {
				maxEcho = 4
			}
			for off := first; off+len(c.Out) <= len(c.In) && nEcho < maxEcho; off += step {
				combos = append(combos, comboPlan{i, -1, kindEcho + off})
				nEcho++
			}
			for kind := 0; kind < 2; kind++ {
				combos = append(combos, comboPlan{i, -1, kind})
				for _, j := range fc {
					if j != i {
						combos = append(combos, comboPlan{i, j, kind})
					}
				}
			}
		}
	}
	for k := 0; k < nfaults+len(combos); k++ {
		n := &nemesis{q: f.Q, honest: base.calls, plan: map[int]func(*nemesis, int, solver.Hint, *big.Int, []*big.Int, []*big.Int) error{}}
		var fdesc []string
		if k >= nfaults {
			cp := combos[k-nfaults]
			if cp.kind >= kindEcho {
				n.plan[cp.i] = echoInputs(cp.kind - kindEcho)
				fdesc = append(fdesc, fmt.Sprintf("echo-inputs-%d@call%d", cp.kind-kindEcho, cp.i))
				o.fault("echo-inputs")
			} else {
				n.plan[cp.i] = constAll(int64(cp.kind))
				fdesc = append(fdesc, fmt.Sprintf("const-all-%d@call%d", cp.kind, cp.i))
				o.fault("const-all")
			}
			if cp.j >= 0 {
				n.plan[cp.j] = perturbFirst
				fdesc = append(fdesc, fmt.Sprintf("perturb-first@call%d", cp.j))
			}
		} else {
			nsites := 1
			if tape.Choose(simrt.SFault, 4) == 0 {
				nsites = 2
			}
			for s := 0; s < nsites; s++ {
				idx := tape.Choose(simrt.SFault, ncalls)
				if len(focused) > 0 && (gc.FocusOnly || tape.Choose(simrt.SFault, 2) == 0) {
					idx = focused[tape.Choose(simrt.SFault, len(focused))]
				}
				st := strategies[tape.Choose(simrt.SFault, len(strategies))]
				n.plan[idx] = st.Make(tape)
				fdesc = append(fdesc, fmt.Sprintf("%s@call%d", st.Name, idx))
				o.fault(st.Name)
			}
		}
		err, pan := runCase(n, gc, comp, a, f.Q, builder)
		o.Evals++
		fd := strings.Join(fdesc, "+")
		if gc.PostCheck != nil && pan == "" {
			planned := map[int]bool{}
			for idx := range n.plan {
				planned[idx] = true
			}
			if msg := gc.PostCheck(base.calls, n.calls, planned); msg != "" {
				if o.violateOrKnown(w, "challenge-not-bound", "challenge-not-bound:"+where, msg+"\nfault: "+fd+"\ncase: "+o.Desc) {
					o.Viol.Faults = fdesc
					return o
				}
			}
		}
		if pan != "" {
			if o.violateOrKnown(w, "solver-panic", "solver-panic:"+where+":"+panicSite(pan), "a faulted hint answer made the solver panic: "+pan+"\nfault: "+fd+"\ncase: "+o.Desc) {
				o.Viol.Faults = fdesc
				return o
			}
			continue
		}
		if err != nil {
			o.probe("faulty_answer_rejected")
			continue
		}
		o.probe("faulty_answer_accepted")
		if gc.Unique {
			if firstAccepted == nil {
				firstAccepted = n.probes
			} else if d := diffProbes(firstAccepted, n.probes); d != "" {
				if o.violateOrKnown(w, "second-satisfying-output", "second-satisfying-output:"+where, "the same inputs are satisfied with two different outputs: "+d+"\nfault: "+fd+"\ncase: "+o.Desc) {
					o.Viol.Faults = fdesc
					return o
				}
			}
		}
		// the circuit is satisfied: the outputs must still be the documented ones
		msg := ""
		if !sat && !free {
			msg = "the circuit must be unsatisfiable for these inputs but a faulted hint answer satisfied it"
		} else {
			msg = check(n.probes)
		}
		if msg != "" {
			// describe the altered answers
			for _, idx := range sortedPlan(n.plan) {
				if idx < len(n.calls) && idx < len(base.calls) {
					msg += fmt.Sprintf("\ncall %d = %s: honest answer %s, faulted answer %s", idx, n.calls[idx].Name, shortInts(base.calls[idx].Out), shortInts(n.calls[idx].Out))
				}
			}
			key := "wrong-output-accepted:" + where + ":" + strings.Split(fd, "@")[0]
			if gc.Classify != nil {
				planned := map[int]bool{}
				for idx := range n.plan {
					planned[idx] = true
				}
				key += ":" + gc.Classify(base.calls, n.calls, planned, f.Q)
			}
			if o.violateOrKnown(w, "wrong-output-accepted", key, msg+"\nfault: "+fd+"\ncase: "+o.Desc) {
				o.Viol.Faults = fdesc
				return o
			}
		}
	}
	o.Desc += fmt.Sprintf(" tape=%x", simrt.TapeHash(tape.Recorded()))
	if o.Sample == nil {
		o.Sample = map[string]any{"case": o.Desc, "hint_calls": ncalls, "faulty_plans": nfaults}
	}
	return o
}

func sortedPlan[T any](m map[int]T) []int {
	var l []int
	for k := range m {
		l = append(l, k)
	}
	sort.Ints(l)
	return l
}

// diffProbes describes the first difference between two sets of probed values ("" if equal).
func diffProbes(a, b map[int][]*big.Int) string {
	for tag, va := range a {
		vb, ok := b[tag]
		if !ok || len(va) != len(vb) {
			continue
		}
		for i := range va {
			if va[i].Cmp(vb[i]) != 0 {
				return fmt.Sprintf("probe %d value %d is %s in one satisfied run and %s in another", tag, i, va[i], vb[i])
			}
		}
	}
	return ""
}

func shortInts(v []*big.Int) string {
	var sb strings.Builder
	sb.WriteString("[")
	for i, x := range v {
		if i >= 12 {
			fmt.Fprintf(&sb, " ... (%d values)", len(v))
			break
		}
		if i > 0 {
			sb.WriteString(" ")
		}
		if x == nil {
			sb.WriteString("nil")
		} else if x.BitLen() > 80 {
			fmt.Fprintf(&sb, "0x%s..(%d bits)", x.Text(16)[:12], x.BitLen())
		} else {
			sb.WriteString(x.String())
		}
	}
	sb.WriteString("]")
	return sb.String()
}

// helpers for specs ----------------------------------------------------------------------

func bi(x int64) *big.Int { return big.NewInt(x) }

func eqInts(got []*big.Int, want ...*big.Int) string {
	if len(got) != len(want) {
		return fmt.Sprintf("%d values probed, %d expected", len(got), len(want))
	}
	for i := range want {
		if got[i].Cmp(want[i]) != 0 {
			return fmt.Sprintf("value %d is %s, expected %s", i, got[i], want[i])
		}
	}
	return ""
}

// drawBiased draws a field element biased to the edges.
func drawBiased(tape *simrt.Tape, q *big.Int) *big.Int { return drawValue(tape, q) }
