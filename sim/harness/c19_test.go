package harness

import (
	"fmt"
	"math/big"

	"github.com/consensys/gnark-crypto/ecc"
	frbls12377 "github.com/consensys/gnark-crypto/ecc/bls12-377/fr"
	poseidon2bls12377 "github.com/consensys/gnark-crypto/ecc/bls12-377/fr/poseidon2"
	gchash "github.com/consensys/gnark-crypto/hash"
	"github.com/consensys/gnark/constraint"
	csbls12377 "github.com/consensys/gnark/constraint/bls12-377"
	csbls12381 "github.com/consensys/gnark/constraint/bls12-381"
	csbls24315 "github.com/consensys/gnark/constraint/bls24-315"
	csbls24317 "github.com/consensys/gnark/constraint/bls24-317"
	csbn254 "github.com/consensys/gnark/constraint/bn254"
	csbw6633 "github.com/consensys/gnark/constraint/bw6-633"
	csbw6761 "github.com/consensys/gnark/constraint/bw6-761"
	"github.com/consensys/gnark/frontend"
	"github.com/consensys/gnark/std/gkr"
	stdhash "github.com/consensys/gnark/std/hash"
	"github.com/consensys/gnark/std/hash/mimc"
	gkrposeidon2 "github.com/consensys/gnark/std/permutation/poseidon2/gkr-poseidon2"
	"strings"
	"verifsim/simrt"
)

func init() {
	// the Fiat-Shamir hash of the GKR verifier: in-circuit MiMC and its native counterparts
	stdhash.Register("mimc", func(api frontend.API) (stdhash.FieldHasher, error) {
		m, err := mimc.NewMiMC(api)
		return &m, err
	})
	csbn254.RegisterHashBuilder("mimc", gchash.MIMC_BN254.New)
	csbls12377.RegisterHashBuilder("mimc", gchash.MIMC_BLS12_377.New)
	csbls12381.RegisterHashBuilder("mimc", gchash.MIMC_BLS12_381.New)
	csbls24315.RegisterHashBuilder("mimc", gchash.MIMC_BLS24_315.New)
	csbls24317.RegisterHashBuilder("mimc", gchash.MIMC_BLS24_317.New)
	csbw6633.RegisterHashBuilder("mimc", gchash.MIMC_BW6_633.New)
	csbw6761.RegisterHashBuilder("mimc", gchash.MIMC_BW6_761.New)
	gkrposeidon2.RegisterGkrSolverOptions(ecc.BLS12_377)
}

// C19: batches of gate evaluations delegated to GKR, under the hint nemesis acting on the
// solving hint (exported values) and on the proving hint (sum-check proof elements): a
// satisfied circuit exports exactly the direct evaluation of the gates.

type gkrCircuit struct {
	X, Y []frontend.Variable
	topo int
}

func (c *gkrCircuit) Define(api frontend.API) error {
	g := gkr.NewApi()
	x, err := g.Import(c.X)
	if err != nil {
		return err
	}
	var y constraint.GkrVariable
	if c.topo != 4 { // topology 4 imports its second input after the first gate
		if y, err = g.Import(c.Y); err != nil {
			return err
		}
	}
	var outs []constraint.GkrVariable
	switch c.topo {
	case 0:
		outs = append(outs, g.Mul(x, y))
	case 1:
		z := g.Add(g.Mul(x, y), x)
		outs = append(outs, g.Mul(z, z), g.Add(z, y)) // fan-out of z into two output gates
	case 2:
		z := g.Mul(x, y)
		w := g.Mul(z, x)
		outs = append(outs, g.Sub(w, y))
	case 3:
		z := g.Neg(g.Add(x, y))
		outs = append(outs, g.Mul(z, g.Mul(x, x)))
	case 4:
		// an input imported after a gate exists, used by exactly one gate
		z := g.Mul(x, x)
		w, err := g.Import(c.Y)
		if err != nil {
			return err
		}
		outs = append(outs, g.Add(z, w))
	}
	sol, err := g.Solve(api)
	if err != nil {
		return err
	}
	var all []frontend.Variable
	for _, o := range outs {
		all = append(all, sol.Export(o)...)
	}
	probe(api, 1, all...)
	return sol.Verify("mimc", all...)
}

func gkrEval(topo int, q, x, y *big.Int) []*big.Int {
	m := func(v *big.Int) *big.Int { return v.Mod(v, q) }
	mul := func(a, b *big.Int) *big.Int { return m(new(big.Int).Mul(a, b)) }
	switch topo {
	case 0:
		return []*big.Int{mul(x, y)}
	case 1:
		z := m(new(big.Int).Add(mul(x, y), x))
		return []*big.Int{mul(z, z), m(new(big.Int).Add(z, y))}
	case 2:
		z := mul(x, y)
		w := mul(z, x)
		return []*big.Int{m(new(big.Int).Sub(w, y))}
	case 4:
		return []*big.Int{m(new(big.Int).Add(mul(x, x), y))}
	default:
		z := m(new(big.Int).Neg(new(big.Int).Add(x, y)))
		return []*big.Int{mul(z, mul(x, x))}
	}
}

func gkrCase(topo, inst int) *gcase {
	mk := func() *gkrCircuit {
		return &gkrCircuit{X: make([]frontend.Variable, inst), Y: make([]frontend.Variable, inst), topo: topo}
	}
	return &gcase{
		Name:        fmt.Sprintf("gkr/topo%d/inst%d", topo, inst),
		Circuit:     mk(),
		NeedsCommit: true,
		Assign: func(tape *simrt.Tape, q *big.Int) (frontend.Circuit, bool, func(map[int][]*big.Int) string, string) {
			c := mk()
			xs, ys := make([]*big.Int, inst), make([]*big.Int, inst)
			for i := 0; i < inst; i++ {
				xs[i], ys[i] = drawBiased(tape, q), drawBiased(tape, q)
				c.X[i], c.Y[i] = xs[i], ys[i]
			}
			check := func(p map[int][]*big.Int) string {
				nout := len(gkrEval(topo, q, xs[0], ys[0]))
				want := make([]*big.Int, 0, nout*inst)
				for o := 0; o < nout; o++ {
					for i := 0; i < inst; i++ {
						want = append(want, gkrEval(topo, q, xs[i], ys[i])[o])
					}
				}
				return eqInts(p[1], want...)
			}
			return c, true, check, fmt.Sprintf("x=%v y=%v", xs, ys)
		},
	}
}

// the Poseidon2 compression wrapper built on GKR (BLS12-377 only): outputs come from one hint,
// the GKR solution from another, and a commitment to (inputs, claimed outputs) seeds the verifier
type gkrPoseidonCircuit struct {
	A, B []frontend.Variable
}

func (c *gkrPoseidonCircuit) Define(api frontend.API) error {
	g := gkrposeidon2.NewGkrCompressions(api)
	outs := make([]frontend.Variable, len(c.A))
	for i := range c.A {
		outs[i] = g.Compress(c.A[i], c.B[i])
	}
	probe(api, 1, outs...)
	return nil
}

func gkrPoseidonCase(inst int) *gcase {
	mk := func() *gkrPoseidonCircuit {
		return &gkrPoseidonCircuit{A: make([]frontend.Variable, inst), B: make([]frontend.Variable, inst)}
	}
	f377 := sField{Name: "bls12_377", Q: ecc.BLS12_377.ScalarField(), Curve: ecc.BLS12_377}
	return &gcase{
		Name: fmt.Sprintf("gkr/poseidon2-compress/inst%d", inst), Circuit: mk(), NeedsCommit: true, Field: &f377, MaxFaults: 4,
		Assign: func(tape *simrt.Tape, q *big.Int) (frontend.Circuit, bool, func(map[int][]*big.Int) string, string) {
			c := mk()
			want := make([]*big.Int, inst)
			var desc []string
			for i := 0; i < inst; i++ {
				a, b := drawBiased(tape, q), drawBiased(tape, q)
				c.A[i], c.B[i] = a, b
				var x [2]frbls12377.Element
				x[0].SetBigInt(a)
				x[1].SetBigInt(b)
				y0 := x[1]
				params := poseidon2bls12377.GetDefaultParameters()
				if err := poseidon2bls12377.NewPermutation(2, params.NbFullRounds, params.NbPartialRounds).Permutation(x[:]); err != nil {
					panic(err)
				}
				x[1].Add(&x[1], &y0)
				want[i] = x[1].BigInt(new(big.Int))
				desc = append(desc, fmt.Sprintf("(%s,%s)", a, b))
			}
			return c, true, func(p map[int][]*big.Int) string { return eqInts(p[1], want...) }, strings.Join(desc, " ")
		},
		// the initial Fiat-Shamir challenge of the GKR verifier must depend on the claimed outputs:
		// when a faulted hint changed a claimed output, what is committed must change with it
		PostCheck: func(honest, faulted []hintCall, planned map[int]bool) string {
			changed := false
			for _, idx := range sortedKeys(planned) {
				if idx < len(honest) && idx < len(faulted) && strings.HasSuffix(faulted[idx].Name, "permuteHint") && len(faulted[idx].Out) == 1 && faulted[idx].Out[0] != nil && honest[idx].Out[0].Cmp(faulted[idx].Out[0]) != 0 {
					changed = true
				}
			}
			if !changed {
				return ""
			}
			commits := func(calls []hintCall) [][]*big.Int {
				var out [][]*big.Int
				for _, c := range calls {
					if strings.HasSuffix(c.Name, "hashCommitHint") {
						out = append(out, c.In)
					}
				}
				return out
			}
			h, f := commits(honest), commits(faulted)
			if len(h) == 0 || len(h) != len(f) {
				return ""
			}
			for i := range h {
				if len(h[i]) != len(f[i]) {
					return ""
				}
				for j := range h[i] {
					if h[i][j].Cmp(f[i][j]) != 0 {
						return ""
					}
				}
			}
			return "a claimed compression output was changed by the prover but the values committed for the GKR verifier's initial challenge are unchanged: the challenge does not depend on the claimed outputs, so they can be chosen after it is known"
		},
	}
}

// series dependencies: the x input of some instances is the z = x*y output of another instance
// (chains that force the solver to reorder the instances)
type gkrSeriesCircuit struct {
	X, Y []frontend.Variable
	deps [][2]int // (input instance, output instance): X[in] := z[out]
}

func (c *gkrSeriesCircuit) Define(api frontend.API) error {
	g := gkr.NewApi()
	xs := append([]frontend.Variable{}, c.X...)
	for _, d := range c.deps {
		xs[d[0]] = nil
	}
	x, err := g.Import(xs)
	if err != nil {
		return err
	}
	y, err := g.Import(c.Y)
	if err != nil {
		return err
	}
	z := g.Mul(x, y)
	for _, d := range c.deps {
		g.Series(x, z, d[0], d[1])
	}
	sol, err := g.Solve(api)
	if err != nil {
		return err
	}
	out := sol.Export(z)
	probe(api, 1, out...)
	return sol.Verify("mimc", out...)
}

func gkrSeriesCase(name string, inst int, deps [][2]int) *gcase {
	mk := func() *gkrSeriesCircuit {
		return &gkrSeriesCircuit{X: make([]frontend.Variable, inst), Y: make([]frontend.Variable, inst), deps: deps}
	}
	return &gcase{
		Name: "gkr/series/" + name, Circuit: mk(), NeedsCommit: true,
		Assign: func(tape *simrt.Tape, q *big.Int) (frontend.Circuit, bool, func(map[int][]*big.Int) string, string) {
			c := mk()
			xs, ys := make([]*big.Int, inst), make([]*big.Int, inst)
			for i := 0; i < inst; i++ {
				xs[i], ys[i] = drawBiased(tape, q), drawBiased(tape, q)
				c.X[i], c.Y[i] = xs[i], ys[i]
			}
			// direct evaluation in dependency order
			from := map[int]int{}
			for _, d := range deps {
				from[d[0]] = d[1]
				c.X[d[0]] = 0 // unused: the value comes from the other instance
			}
			z := make([]*big.Int, inst)
			var eval func(i int) *big.Int
			eval = func(i int) *big.Int {
				if z[i] != nil {
					return z[i]
				}
				x := xs[i]
				if j, ok := from[i]; ok {
					x = eval(j)
				}
				z[i] = new(big.Int).Mul(x, ys[i])
				z[i].Mod(z[i], q)
				return z[i]
			}
			for i := range z {
				eval(i)
			}
			return c, true, func(p map[int][]*big.Int) string { return eqInts(p[1], z...) }, fmt.Sprintf("x=%v y=%v deps=%v", xs, ys, deps)
		},
	}
}

var c19Cases = []*gcase{
	gkrSeriesCase("swap", 2, [][2]int{{0, 1}}), gkrSeriesCase("chain3of4", 4, [][2]int{{0, 2}, {2, 1}}), gkrSeriesCase("chain4", 4, [][2]int{{1, 3}, {3, 0}, {0, 2}}), gkrSeriesCase("identity-order", 4, [][2]int{{1, 0}, {2, 1}}),
	gkrPoseidonCase(2), gkrPoseidonCase(3),
	gkrCase(4, 2), gkrCase(4, 4), gkrCase(4, 8), gkrCase(0, 2), gkrCase(0, 4), gkrCase(1, 2), gkrCase(1, 8), gkrCase(2, 4), gkrCase(2, 16), gkrCase(3, 2), gkrCase(3, 4),
}

func init() {
	register(&Engine{Name: "c19", Prop: "C19", Run: func(w *Worker, tape *simrt.Tape) *Outcome {
		var fields []sField
		for _, c := range w.curves() {
			fields = append(fields, sField{Name: c.String(), Q: c.ScalarField(), Curve: c})
		}
		return nemesisRun(w, tape, "C19", c19Cases, fields)
	}})
}
