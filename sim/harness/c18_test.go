package harness

import (
	"bytes"
	"fmt"
	"io"

	"github.com/consensys/gnark-crypto/ecc"
	"github.com/consensys/gnark/backend/groth16"
	"github.com/consensys/gnark/constraint"
	"verifsim/simrt"
)

// C18: a coordinator and 1-4 contributors per phase run the real Contribute -> WriteTo ->
// (wire) -> ReadFrom -> Verify chain for generated circuits; a second ceremony of the same
// circuit provides foreign contributions. The wire drops, duplicates, swaps and splices
// contributions, replaces single encoded elements by other valid elements, truncates
// messages and erases challenges; contributors may run on zero / replayed entropy. Oracle:
// the lineage ledger - a transcript verifies iff every accepted contribution is what an
// honest Contribute produced from the previous accepted one (a prefix of the honest chain);
// on success the sealed keys prove and verify the circuit.

type mpcObj interface {
	Contribute()
	io.WriterTo
	io.ReaderFrom
}

type mpcAPI struct {
	curve        ecc.ID
	NewPhase1    func(n uint64) mpcObj
	EmptyPhase1  func() mpcObj
	VerifyStep1  func(prev, next mpcObj) error
	VerifyPhase1 func(n uint64, beacon []byte, c []mpcObj) (any, error)
	InitPhase2   func(ccs constraint.ConstraintSystem, commons any) mpcObj
	EmptyPhase2  func() mpcObj
	VerifyPhase2 func(ccs constraint.ConstraintSystem, commons any, beacon []byte, c []mpcObj) (groth16.ProvingKey, groth16.VerifyingKey, error)
}

var mpcAPIs = map[ecc.ID]*mpcAPI{}

type msg struct {
	Bytes []byte
	Log   []simrt.WriteRec
}

type ceremony struct {
	p1, p2  []msg
	commons any
}

type mpcFx struct {
	fx   *Fixture
	api  *mpcAPI
	n    uint64
	a, b *ceremony
}

var mpcCache = map[*Fixture]*mpcFx{}

var c18Feat = GenFeat{Commit: true, Lookup: false, Range: false, Hint: true, Wide: false, Bits: false, MaxOps: 5, MinOps: 1}

func serialise(x io.WriterTo) (msg, error) {
	w := simrt.NewWriter()
	_, err := x.WriteTo(w)
	return msg{w.Buf, w.Log}, err
}

func (w *Worker) runCeremony(api *mpcAPI, fx *Fixture, n uint64, key uint64, k1, k2 int, mode int) (*ceremony, error) {
	w.SetEntropy(key, mode, 0)
	c := &ceremony{}
	p1 := api.NewPhase1(n)
	for i := 0; i < k1; i++ {
		p1.Contribute()
		m, err := serialise(p1)
		if err != nil {
			return nil, err
		}
		c.p1 = append(c.p1, m)
	}
	objs, err := decodeChain(api.EmptyPhase1, c.p1)
	if err != nil {
		return nil, fmt.Errorf("honest phase 1 contribution does not decode: %w", err)
	}
	commons, err := api.VerifyPhase1(n, []byte("beacon-1"), objs)
	if err != nil {
		return nil, fmt.Errorf("honest phase 1 chain rejected: %w", err)
	}
	c.commons = commons
	p2 := api.InitPhase2(fx.CCS, commons)
	for i := 0; i < k2; i++ {
		p2.Contribute()
		m, err := serialise(p2)
		if err != nil {
			return nil, err
		}
		c.p2 = append(c.p2, m)
	}
	return c, nil
}

func decodeChain(mk func() mpcObj, msgs []msg) ([]mpcObj, error) {
	out := make([]mpcObj, len(msgs))
	for i, m := range msgs {
		o := mk()
		n, err := o.ReadFrom(bytes.NewReader(m.Bytes))
		if err != nil {
			return nil, fmt.Errorf("contribution %d: %w", i, err)
		}
		if int(n) != len(m.Bytes) {
			return nil, fmt.Errorf("contribution %d: %d of %d bytes consumed", i, n, len(m.Bytes))
		}
		out[i] = o
	}
	return out, nil
}

func c18Run(w *Worker, tape *simrt.Tape) *Outcome {
	o := &Outcome{}
	ch := func(n int) int { return tape.Choose(simrt.SWorkload, n) }
	curves := w.curves()
	curve := curves[0]
	if ch(3) == 0 {
		curve = curves[ch(len(curves))]
	}
	api := mpcAPIs[curve]
	slot := ch(w.paramInt("slots", 12))
	fx, err := w.fixture(beGroth16, curve, slot, c18Feat, false)
	if err != nil {
		o.probe("fixture_skipped")
		o.Desc = "skipped: " + err.Error()
		return o
	}
	where := "mpc:" + curve.String()
	mf := mpcCache[fx]
	if mf == nil {
		mf = &mpcFx{fx: fx, api: api, n: ecc.NextPowerOfTwo(uint64(fx.CCS.GetNbConstraints()))}
		k1, k2 := 2+slot%3, 2+(slot/3)%3
		key := simrt.Mix(w.Seed^0xc18, hash64(fx.Prog.String()))
		var err error
		if pan := guard(func() {
			if mf.a, err = w.runCeremony(api, fx, mf.n, key, k1, k2, simrt.EntKeyed); err == nil {
				mf.b, err = w.runCeremony(api, fx, mf.n, key^0xb, k1, k2, simrt.EntKeyed)
			}
		}); pan != "" {
			o.violateOrKnown(w, "ceremony-panic", fmt.Sprintf("ceremony-panic:mpc:N=%d:%s", mf.n, panicSite(pan)), "an honest ceremony panicked: "+pan+"\nprog: "+fx.Prog.String())
			o.NonTrivial = false
			return o
		}
		if err != nil {
			o.violate("honest-chain-rejected", "honest-chain-rejected:"+where, err.Error()+"\nprog: "+fx.Prog.String())
			return o
		}
		mpcCache[fx] = mf
	}
	nfaults := w.paramInt("faults", 10)
	o.NonTrivial = true
	o.Desc = fmt.Sprintf("%s/slot%d[%s] N=%d k1=%d k2=%d", where, slot, fx.Prog.Kinds(), mf.n, len(mf.a.p1), len(mf.a.p2))
	if fx.hasCommitment() {
		o.probe("circuit_with_commitment")
	}
	o.probe(fmt.Sprintf("domain_size_%d", mf.n))

	// verify runs the coordinator on a delivered transcript of one phase
	verify := func(phase int, msgs []msg) (accepted bool, detail string, keys [2]any, pan string) {
		pan = guard(func() {
			if phase == 1 {
				objs, err := decodeChain(api.EmptyPhase1, msgs)
				if err != nil {
					detail = "decode: " + err.Error()
					return
				}
				if _, err := api.VerifyPhase1(mf.n, []byte("beacon-1"), objs); err != nil {
					detail = err.Error()
					return
				}
				accepted = true
				return
			}
			objs, err := decodeChain(api.EmptyPhase2, msgs)
			if err != nil {
				detail = "decode: " + err.Error()
				return
			}
			pk, vk, err := api.VerifyPhase2(fx.CCS, mf.a.commons, []byte("beacon-2"), objs)
			if err != nil {
				detail = err.Error()
				return
			}
			accepted = true
			keys = [2]any{pk, vk}
		})
		return
	}
	// isPrefix: the lineage ledger
	isPrefix := func(honest, got []msg) bool {
		if len(got) > len(honest) {
			return false
		}
		for i := range got {
			if !bytes.Equal(got[i].Bytes, honest[i].Bytes) {
				return false
			}
		}
		return true
	}
	for f := 0; f < nfaults; f++ {
		phase := 1 + tape.Choose(simrt.SFault, 2)
		honest := mf.a.p1
		foreign := mf.b.p1
		if phase == 2 {
			honest, foreign = mf.a.p2, mf.b.p2
		}
		msgs := append([]msg(nil), honest...)
		kind := tape.Choose(simrt.SFault, 9)
		var fdesc string
		legit := false
		switch kind {
		case 0:
			fdesc = "none"
			legit = true
			o.fault("none")
		case 1: // drop
			i := tape.Choose(simrt.SFault, len(msgs))
			msgs = append(msgs[:i:i], msgs[i+1:]...)
			fdesc = fmt.Sprintf("drop contribution %d of %d", i, len(honest))
			o.fault("drop")
		case 2: // duplicate
			i := tape.Choose(simrt.SFault, len(msgs))
			msgs = append(msgs[:i+1:i+1], msgs[i:]...)
			fdesc = fmt.Sprintf("duplicate contribution %d", i)
			o.fault("duplicate")
		case 3: // swap
			if len(msgs) < 2 {
				continue
			}
			i := tape.Choose(simrt.SFault, len(msgs)-1)
			msgs[i], msgs[i+1] = msgs[i+1], msgs[i]
			fdesc = fmt.Sprintf("swap contributions %d and %d", i, i+1)
			o.fault("reorder")
		case 4: // splice from the other ceremony
			i := tape.Choose(simrt.SFault, len(msgs))
			msgs[i] = foreign[i%len(foreign)]
			fdesc = fmt.Sprintf("contribution %d replaced by one from another ceremony of the same circuit", i)
			o.fault("splice")
		case 5, 6: // one encoded element replaced by another valid element
			i := tape.Choose(simrt.SFault, len(msgs))
			m := msgs[i]
			var recs []int
			for k, r := range m.Log {
				if r.Len >= 32 {
					recs = append(recs, k)
				}
			}
			if len(recs) == 0 {
				continue
			}
			ri := recs[tape.Choose(simrt.SFault, len(recs))]
			r := m.Log[ri]
			// donor: another record of the same size, from this message or from the foreign one
			var donor []byte
			src := ""
			if tape.Choose(simrt.SFault, 2) == 0 {
				fm := foreign[i%len(foreign)]
				if ri < len(fm.Log) && fm.Log[ri].Len == r.Len {
					donor = fm.Bytes[fm.Log[ri].Off : fm.Log[ri].Off+r.Len]
					src = "the same position of the other ceremony"
				}
			}
			if donor == nil {
				var same []int
				for _, k := range recs {
					if k != ri && m.Log[k].Len == r.Len {
						same = append(same, k)
					}
				}
				if len(same) == 0 {
					continue
				}
				k := same[tape.Choose(simrt.SFault, len(same))]
				donor = m.Bytes[m.Log[k].Off : m.Log[k].Off+r.Len]
				src = fmt.Sprintf("element %d of the same message", k)
			}
			nb := append([]byte(nil), m.Bytes...)
			copy(nb[r.Off:], donor)
			legit = bytes.Equal(nb, m.Bytes)
			msgs[i] = msg{nb, m.Log}
			fdesc = fmt.Sprintf("contribution %d: encoded element %d (%d bytes at %d) replaced by %s", i, ri, r.Len, r.Off, src)
			o.fault("element_replaced")
		case 7: // contributor crash: truncated message
			i := tape.Choose(simrt.SFault, len(msgs))
			k := tape.Choose(simrt.SFault, len(msgs[i].Bytes))
			msgs[i] = msg{msgs[i].Bytes[:k], nil}
			fdesc = fmt.Sprintf("contribution %d truncated at byte %d", i, k)
			o.fault("truncation")
		case 8: // the tail of the chain is missing (valid)
			k := tape.Choose(simrt.SFault, len(msgs)+1)
			msgs = msgs[:k]
			fdesc = fmt.Sprintf("only the first %d contributions delivered", k)
			o.fault("tail_dropped")
		}
		legit = legit || isPrefix(honest, msgs)
		o.Evals++
		acc, detail, keys, pan := verify(phase, msgs)
		if pan != "" {
			if o.violateOrKnown(w, "coordinator-panic", fmt.Sprintf("coordinator-panic:%s:phase%d:%s", where, phase, panicSite(pan)), "verification of a delivered transcript panicked: "+pan+"\nfault: "+fdesc+"\ncase: "+o.Desc) {
				o.Viol.Faults = []string{fdesc}
				return o
			}
			continue
		}
		if acc {
			o.probe("transcript_accepted")
		} else {
			o.probe("transcript_rejected")
		}
		if acc && !legit {
			key := fmt.Sprintf("invalid-chain-accepted:%s:phase%d:%s", where, phase, firstWords(fdesc, 2))
			if o.violateOrKnown(w, "invalid-chain-accepted", key, "the coordinator accepted a transcript that is not a prefix of the honest chain\nfault: "+fdesc+"\ncase: "+o.Desc+"\nprog: "+fx.Prog.String()) {
				o.Viol.Faults = []string{fdesc}
				return o
			}
		}
		if !acc && legit {
			o.violate("honest-chain-rejected", fmt.Sprintf("honest-chain-rejected:%s:phase%d", where, phase), "a prefix of the honest chain was rejected: "+detail+"\nfault: "+fdesc+"\ncase: "+o.Desc)
			return o
		}
		// the sealed keys of an accepted phase-2 transcript must work
		if acc && phase == 2 && keys[0] != nil && tape.Choose(simrt.SFault, 3) == 0 {
			w.SetEntropy(simrt.Mix(w.Seed^0xc18, uint64(f)), simrt.EntKeyed, 0)
			wt := fx.Wits[0]
			proof, err := groth16.Prove(fx.CCS, keys[0].(groth16.ProvingKey), wt.Full)
			o.Evals++
			if err != nil {
				o.violate("mpc-keys-unusable", "mpc-keys-unusable:"+where, "Prove with the extracted proving key failed: "+err.Error()+"\ncase: "+o.Desc)
				return o
			}
			if err := groth16.Verify(proof, keys[1].(groth16.VerifyingKey), wt.Pub); err != nil {
				o.violate("mpc-keys-unusable", "mpc-keys-unusable:"+where, "a proof made with the extracted keys is rejected: "+err.Error()+"\ncase: "+o.Desc)
				return o
			}
			// and reject a wrong statement
			for _, other := range fx.Wits[1:] {
				if other.Valid && !bytes.Equal(witnessBytes(other.Pub), witnessBytes(wt.Pub)) && !statementHolds(fx, 0, pubVector(other.Pub)) {
					if err := groth16.Verify(proof, keys[1].(groth16.VerifyingKey), other.Pub); err == nil {
						o.violate("mpc-keys-unsound", "mpc-keys-unsound:"+where, "the extracted verifying key accepts a proof for another public input\ncase: "+o.Desc)
						return o
					}
					break
				}
			}
			o.probe("extracted_keys_prove_and_verify")
		}
	}
	// contributors on dead / replayed entropy: verification soundness must not depend on it
	if tape.Choose(simrt.SFault, 4) == 0 {
		mode := []int{simrt.EntZero, simrt.EntRepeat}[tape.Choose(simrt.SFault, 2)]
		var c *ceremony
		var err error
		pan := guard(func() { c, err = w.runCeremony(api, fx, mf.n, 7, 2, 2, mode) })
		o.fault("contributor_entropy_" + simrt.EntropyModeNames[mode])
		o.Evals++
		switch {
		case pan != "":
			o.probe("contributor_panics_on_bad_entropy")
		case err != nil:
			o.probe("bad_entropy_chain_rejected")
		default:
			_ = c
			o.probe("bad_entropy_chain_verifies")
		}
	}
	o.Desc += fmt.Sprintf(" tape=%x", simrt.TapeHash(tape.Recorded()))
	if o.Sample == nil {
		o.Sample = map[string]any{"case": o.Desc, "phase1_message_bytes": len(mf.a.p1[0].Bytes), "phase2_message_bytes": len(mf.a.p2[0].Bytes), "elements_in_phase1_message": len(mf.a.p1[0].Log)}
	}
	return o
}

func firstWords(s string, n int) string {
	out := ""
	k := 0
	for _, c := range s {
		if c == ' ' {
			k++
			if k >= n {
				break
			}
			c = '-'
		}
		if c >= '0' && c <= '9' {
			continue
		}
		out += string(c)
	}
	return out
}

func init() {
	register(&Engine{Name: "c18", Prop: "C18", Run: c18Run})
}
