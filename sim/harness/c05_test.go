package harness

import (
	"fmt"
	"math/big"

	"github.com/consensys/gnark/constraint/solver"
	"github.com/consensys/gnark/frontend"
	fcs "github.com/consensys/gnark/frontend/cs"
	"verifsim/simrt"
)

var commitPlaceholder = fcs.Bsb22CommitmentComputePlaceholder

// C05: one small circuit per frontend API operation; the dishonest-prover clause is decided
// by the hint nemesis: whatever the hints answer, a satisfied circuit has the documented
// outputs. Over the 47-element field single-output substitutions are enumerated exhaustively.

type opCircuit struct {
	X, Y, Z, T frontend.Variable
	op         string
	n          int
}

func (c *opCircuit) Define(api frontend.API) error {
	switch c.op {
	case "iszero":
		probe(api, 1, api.IsZero(c.X))
	case "div":
		probe(api, 1, api.Div(c.X, c.Y))
	case "divunchecked":
		probe(api, 1, api.DivUnchecked(c.X, c.Y))
	case "divconst":
		// a compile-time constant dividend (c.n, possibly zero) over a variable divisor
		probe(api, 1, api.Div(c.n, c.Y))
	case "divuncheckedconst":
		probe(api, 1, api.DivUnchecked(c.n, c.Y))
	case "inverse":
		probe(api, 1, api.Inverse(c.X))
	case "tobinary":
		var bits []frontend.Variable
		switch {
		case c.n == 0:
			bits = api.ToBinary(c.X)
		case c.n < 0:
			// a width above the field's bit length (documented usage: the excess bits are zero)
			bits = api.ToBinary(c.X, api.Compiler().FieldBitLen()-c.n)
		default:
			bits = api.ToBinary(c.X, c.n)
		}
		probe(api, 1, bits...)
		probe(api, 2, api.FromBinary(bits...))
	case "xor":
		probe(api, 1, api.Xor(c.X, c.Y), api.Or(c.X, c.Y), api.And(c.X, c.Y))
	case "select":
		probe(api, 1, api.Select(c.Z, c.X, c.Y))
	case "lookup2":
		probe(api, 1, api.Lookup2(c.Z, c.T, c.X, c.Y, api.Add(c.X, 1), api.Add(c.Y, 2)))
	case "cmp":
		probe(api, 1, api.Cmp(c.X, c.Y))
	case "leq":
		api.AssertIsLessOrEqual(c.X, c.Y)
	case "leqconst":
		api.AssertIsLessOrEqual(c.X, c.n)
	case "boolean":
		api.AssertIsBoolean(c.X)
	case "crumb":
		api.AssertIsCrumb(c.X)
	case "different":
		api.AssertIsDifferent(c.X, c.Y)
	}
	return nil
}

func bitsOfInt(x *big.Int, n int) []*big.Int {
	out := make([]*big.Int, n)
	for i := range out {
		out[i] = big.NewInt(int64(x.Bit(i)))
	}
	return out
}

// opSpec returns (satisfiable, checker) for op on inputs.
func opSpec(op string, n int, q, x, y, z, t *big.Int) (bool, func(p map[int][]*big.Int) string) {
	one, zero := bi(1), bi(0)
	isBool := func(v *big.Int) bool { return v.Cmp(zero) == 0 || v.Cmp(one) == 0 }
	none := func(map[int][]*big.Int) string { return "" }
	switch op {
	case "iszero":
		want := zero
		if x.Sign() == 0 {
			want = one
		}
		return true, func(p map[int][]*big.Int) string { return eqInts(p[1], want) }
	case "div", "divunchecked":
		if y.Sign() == 0 {
			if op == "divunchecked" && x.Sign() == 0 {
				return true, none // documented: the quotient of 0/0 is unconstrained
			}
			return false, none
		}
		want := new(big.Int).ModInverse(y, q)
		want.Mul(want, x).Mod(want, q)
		return true, func(p map[int][]*big.Int) string { return eqInts(p[1], want) }
	case "divconst", "divuncheckedconst":
		cst := new(big.Int).Mod(big.NewInt(int64(n)), q)
		if y.Sign() == 0 {
			if op == "divuncheckedconst" && cst.Sign() == 0 {
				return true, none // 0/0 of the unchecked division: unconstrained quotient
			}
			return false, none
		}
		want := new(big.Int).ModInverse(y, q)
		want.Mul(want, cst).Mod(want, q)
		return true, func(p map[int][]*big.Int) string { return eqInts(p[1], want) }
	case "inverse":
		if x.Sign() == 0 {
			return false, none
		}
		want := new(big.Int).ModInverse(x, q)
		return true, func(p map[int][]*big.Int) string { return eqInts(p[1], want) }
	case "tobinary":
		nb := n
		if nb == 0 {
			nb = q.BitLen()
		}
		if nb < 0 {
			nb = q.BitLen() - n
		}
		if x.BitLen() > nb {
			return false, none
		}
		want := bitsOfInt(x, nb)
		return true, func(p map[int][]*big.Int) string {
			if m := eqInts(p[1], want...); m != "" {
				return "bit decomposition: " + m
			}
			return eqInts(p[2], x)
		}
	case "xor":
		if !isBool(x) || !isBool(y) {
			return false, none
		}
		a, b := x.Int64(), y.Int64()
		return true, func(p map[int][]*big.Int) string { return eqInts(p[1], bi(a^b), bi(a|b), bi(a&b)) }
	case "select":
		if !isBool(z) {
			return false, none
		}
		want := y
		if z.Cmp(one) == 0 {
			want = x
		}
		return true, func(p map[int][]*big.Int) string { return eqInts(p[1], want) }
	case "lookup2":
		if !isBool(z) || !isBool(t) {
			return false, none
		}
		tab := []*big.Int{x, y, new(big.Int).Add(x, one), new(big.Int).Add(y, bi(2))}
		want := new(big.Int).Mod(tab[z.Int64()+2*t.Int64()], q)
		return true, func(p map[int][]*big.Int) string { return eqInts(p[1], want) }
	case "cmp":
		c := x.Cmp(y)
		want := new(big.Int).Mod(bi(int64(c)), q)
		return true, func(p map[int][]*big.Int) string { return eqInts(p[1], want) }
	case "leq":
		return x.Cmp(y) <= 0, none
	case "leqconst":
		return x.Cmp(bi(int64(n))) <= 0, none
	case "boolean":
		return isBool(x), none
	case "crumb":
		return x.Cmp(bi(4)) < 0, none
	case "different":
		return x.Cmp(y) != 0, none
	}
	return true, none
}

func opCase(op string, n int) *gcase {
	name := op
	if n != 0 {
		name = fmt.Sprintf("%s%d", op, n)
	}
	return &gcase{
		Name:    "api." + name,
		Circuit: &opCircuit{op: op, n: n},
		SmallOK: true,
		Assign: func(tape *simrt.Tape, q *big.Int) (frontend.Circuit, bool, func(map[int][]*big.Int) string, string) {
			x, y := drawBiased(tape, q), drawBiased(tape, q)
			z, t := bi(int64(tape.Choose(simrt.SWorkload, 2))), bi(int64(tape.Choose(simrt.SWorkload, 2)))
			switch tape.Choose(simrt.SWorkload, 6) {
			case 0:
				y = new(big.Int).Set(x) // equal operands
			case 1:
				z = drawBiased(tape, q) // a non-boolean selector now and then
			case 2:
				if op == "tobinary" && n > 0 {
					// around the 2^n boundary
					x = new(big.Int).Lsh(bi(1), uint(n))
					x.Add(x, bi(int64(tape.Choose(simrt.SWorkload, 3)-1))).Mod(x, q)
				}
			case 3:
				if op == "xor" || op == "boolean" || op == "crumb" {
					x, y = bi(int64(tape.Choose(simrt.SWorkload, 5))), bi(int64(tape.Choose(simrt.SWorkload, 3)))
					x.Mod(x, q)
				}
			case 4:
				if op == "leq" || op == "cmp" || op == "leqconst" {
					y = new(big.Int).Add(x, bi(int64(tape.Choose(simrt.SWorkload, 3)-1)))
					y.Mod(y, q)
				}
			}
			if (op == "xor") && tape.Choose(simrt.SWorkload, 4) != 0 {
				x, y = bi(int64(tape.Choose(simrt.SWorkload, 2))), bi(int64(tape.Choose(simrt.SWorkload, 2)))
			}
			sat, check := opSpec(op, n, q, x, y, z, t)
			desc := fmt.Sprintf("x=%s y=%s z=%s t=%s", x, y, z, t)
			if op == "divunchecked" && x.Sign() == 0 && y.Sign() == 0 {
				desc = "free-verdict:" + desc
			}
			if op == "divuncheckedconst" && n == 0 && y.Sign() == 0 {
				desc = "free-verdict:" + desc
			}
			if (op == "divconst" || op == "divuncheckedconst") && tape.Choose(simrt.SWorkload, 3) == 0 {
				y = bi(0)
				sat, check = opSpec(op, n, q, x, y, z, t)
				desc = fmt.Sprintf("x=%s y=%s z=%s t=%s", x, y, z, t)
				if op == "divuncheckedconst" && n == 0 {
					desc = "free-verdict:" + desc
				}
			}
			return &opCircuit{X: x, Y: y, Z: z, T: t, op: op, n: n}, sat, check, desc
		},
	}
}

var c05Cases = []*gcase{
	opCase("iszero", 0), opCase("div", 0), opCase("divunchecked", 0), opCase("inverse", 0),
	opCase("divconst", 0), opCase("divconst", 5), opCase("divuncheckedconst", 0), opCase("divuncheckedconst", 3),
	opCase("tobinary", 0), opCase("tobinary", 4), opCase("tobinary", 1), opCase("tobinary", 5), opCase("tobinary", -1), opCase("tobinary", -3),
	opCase("xor", 0), opCase("select", 0), opCase("lookup2", 0), opCase("cmp", 0),
	opCase("leq", 0), opCase("leqconst", 9), opCase("leqconst", 31), opCase("boolean", 0), opCase("crumb", 0), opCase("different", 0),
}

var tinyQ = big.NewInt(47)

// c05Exhaustive enumerates, over the 47-element field, every input x and every substitution
// of every single hint output by every field value for one single-input operation.
func c05Exhaustive(w *Worker, tape *simrt.Tape, o *Outcome) *Outcome {
	ops := []struct {
		op string
		n  int
	}{{"iszero", 0}, {"inverse", 0}, {"tobinary", 0}, {"tobinary", 4}, {"tobinary", 1}, {"boolean", 0}, {"crumb", 0}, {"leqconst", 9}}
	pick := ops[tape.Choose(simrt.SWorkload, len(ops))]
	builder := tape.Choose(simrt.SWorkload, 2)
	gc := opCase(pick.op, pick.n)
	comp := compileCase(gc, tinyQ, true, builder)
	bn := []string{"r1cs", "scs"}[builder]
	where := gc.Name + ":" + bn
	o.Desc = fmt.Sprintf("%s/tinyfield/%s exhaustive", gc.Name, bn)
	o.NonTrivial = true
	o.Exhaustive = true
	o.probe("exhaustive_cell:" + gc.Name + "/" + bn)
	if comp.err != nil {
		o.violate("compile-failed", "compile-failed:"+where, comp.err.Error())
		return o
	}
	y := bi(3)
	for xv := int64(0); xv < 47; xv++ {
		x := bi(xv)
		sat, check := opSpec(pick.op, pick.n, tinyQ, x, y, bi(0), bi(0))
		a := &opCircuit{X: x, Y: y, Z: bi(0), T: bi(0), op: pick.op, n: pick.n}
		base := &nemesis{q: tinyQ}
		err, pan := runCase(base, gc, comp, a, tinyQ, builder)
		o.Evals++
		if pan != "" {
			o.violate("solver-panic", "solver-panic:"+where+":"+panicSite(pan), pan)
			return o
		}
		if (err == nil) != sat {
			o.violate("baseline-verdict", "baseline-verdict:"+where, fmt.Sprintf("x=%d: honest hints give err=%v, expected satisfiable=%v", xv, err, sat))
			return o
		}
		if err == nil {
			if m := check(base.probes); m != "" {
				o.violate("baseline-wrong-output", "baseline-wrong-output:"+where, fmt.Sprintf("x=%d: %s", xv, m))
				return o
			}
		}
		for ci, c := range base.calls {
			for oi := range c.Out {
				for v := int64(0); v < 47; v++ {
					if c.Out[oi] != nil && c.Out[oi].Cmp(bi(v)) == 0 {
						continue
					}
					ci, oi, v := ci, oi, v
					n := &nemesis{q: tinyQ, honest: base.calls, plan: map[int]func(*nemesis, int, solver.Hint, *big.Int, []*big.Int, []*big.Int) error{
						ci: func(n *nemesis, idx int, f solver.Hint, q *big.Int, in, out []*big.Int) error {
							if err := f(q, in, out); err != nil {
								return err
							}
							out[oi].SetInt64(v)
							return nil
						}}}
					err, pan := runCase(n, gc, comp, a, tinyQ, builder)
					o.Evals++
					o.fault("exhaustive_single_output_substitution")
					if pan != "" {
						o.violate("solver-panic", "solver-panic:"+where+":"+panicSite(pan), pan)
						return o
					}
					if err != nil {
						continue
					}
					o.probe("faulty_answer_accepted")
					msg := ""
					if !sat {
						msg = "must be unsatisfiable"
					} else {
						msg = check(n.probes)
					}
					if msg != "" {
						if o.violateOrKnown(w, "wrong-output-accepted", "wrong-output-accepted:"+where+":exhaustive", fmt.Sprintf("x=%d, hint call %d output %d := %d satisfies the circuit: %s", xv, ci, oi, v, msg)) {
							return o
						}
					}
				}
			}
		}
	}
	o.Sample = map[string]any{"case": o.Desc, "inputs": 47, "evaluations": o.Evals}
	return o
}

func c05Run(w *Worker, tape *simrt.Tape) *Outcome {
	if tape.Choose(simrt.SWorkload, 12) == 0 {
		return c05Exhaustive(w, tape, &Outcome{})
	}
	fields := []sField{}
	for _, c := range w.curves() {
		fields = append(fields, sField{Name: c.String(), Q: c.ScalarField(), Curve: c})
	}
	fields = append(fields, sField{Name: "tinyfield", Q: tinyQ, Small: true}, sField{Name: "tinyfield", Q: tinyQ, Small: true})
	return nemesisRun(w, tape, "C05", c05Cases, fields)
}

func init() {
	register(&Engine{Name: "c05", Prop: "C05", Run: c05Run})
}
