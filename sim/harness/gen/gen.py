#!/usr/bin/env python3
"""Generates the per-curve MPC adapter files of the harness (the mpcsetup packages have
identical APIs over distinct concrete types)."""
import os
here = os.path.dirname(os.path.abspath(__file__))
tmpl = open(os.path.join(here, "mpc_adapter.go.tmpl")).read()
for pkg, cid in [("bn254", "BN254"), ("bls12-377", "BLS12_377"), ("bls12-381", "BLS12_381"), ("bls24-315", "BLS24_315"),
                 ("bls24-317", "BLS24_317"), ("bw6-633", "BW6_633"), ("bw6-761", "BW6_761")]:
    out = os.path.join(here, "..", "mpc_%s_test.go" % pkg.replace("-", ""))
    open(out, "w").write(tmpl.replace("@PKG@", pkg).replace("@ID@", cid))
