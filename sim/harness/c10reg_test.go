package harness

import (
	"fmt"
	"sort"
	"strings"
	"sync/atomic"
	"time"

	"github.com/anishathalye/porcupine"
	"github.com/consensys/gnark/constraint/solver"
	"verifsim/simrt"
)

// C10, registry histories: the global hint registry is the one stateful object that concurrent
// callers (package initialisers, compilations, solves) share through an API of its own. Client
// tasks register subsets of a window of fresh hint functions (with duplicates, as two packages
// registering an overlapping list do), look hints up and take snapshots, under the seeded
// scheduler; the recorded history (invoke / return stamped with a global event counter - the
// execution is serialised by the token scheduler, so the counter is a total order consistent
// with real time) must be linearizable against a grow-only set.

type regIn struct {
	Kind  int    // 0 register, 1 lookup, 2 snapshot
	Mask  uint64 // register: the hints of the call (window positions), in call order in Order
	Pos   int    // lookup
	Order []int
}

type regOut struct {
	Present bool
	Mask    uint64
}

var regModel = porcupine.Model{
	Init: func() interface{} { return uint64(0) },
	Step: func(state, input, output interface{}) (bool, interface{}) {
		st, in, out := state.(uint64), input.(regIn), output.(regOut)
		switch in.Kind {
		case 0:
			return true, st | in.Mask
		case 1:
			return out.Present == (st&(1<<uint(in.Pos)) != 0), st
		default:
			return out.Mask == st, st
		}
	},
	DescribeOperation: func(input, output interface{}) string {
		in, out := input.(regIn), output.(regOut)
		switch in.Kind {
		case 0:
			return fmt.Sprintf("RegisterHint(window positions %v)", in.Order)
		case 1:
			return fmt.Sprintf("GetRegisteredHint(position %d) -> present=%v", in.Pos, out.Present)
		default:
			return fmt.Sprintf("GetRegisteredHints() -> window mask %b", out.Mask)
		}
	},
}

func c10Registry(w *Worker, tape *simrt.Tape) *Outcome {
	o := &Outcome{}
	ch := func(n int) int { return tape.Choose(simrt.SWorkload, n) }
	// window: the next hints of the pool that this process has not registered yet
	const win = 6
	start := 0
	for start < len(regHints) && solver.GetRegisteredHint(solver.GetHintID(regHints[start])) != nil {
		start++
	}
	if start+win > len(regHints) {
		start = len(regHints) - win // exhausted: the history is still checked, from a full state
		o.probe("registry_pool_exhausted")
	}
	window := regHints[start : start+win]
	ids := make([]solver.HintID, win)
	var init uint64
	for i, h := range window {
		ids[i] = solver.GetHintID(h)
		if solver.GetRegisteredHint(ids[i]) != nil {
			init |= 1 << uint(i)
		}
	}
	snapshot := func() uint64 {
		var m uint64
		present := map[solver.HintID]bool{}
		for _, h := range solver.GetRegisteredHints() {
			present[solver.GetHintID(h)] = true
		}
		for i, id := range ids {
			if present[id] {
				m |= 1 << uint(i)
			}
		}
		return m
	}
	nclients := 2 + ch(3)
	type plan struct{ ops []regIn }
	plans := make([]plan, nclients)
	for c := range plans {
		nops := 2 + ch(4)
		for k := 0; k < nops; k++ {
			switch ch(4) {
			case 0, 1:
				n := 1 + ch(3)
				in := regIn{Kind: 0}
				for j := 0; j < n; j++ {
					p := ch(win)
					in.Order = append(in.Order, p) // duplicates within and across calls on purpose
					in.Mask |= 1 << uint(p)
				}
				plans[c].ops = append(plans[c].ops, in)
			case 2:
				plans[c].ops = append(plans[c].ops, regIn{Kind: 1, Pos: ch(win)})
			default:
				plans[c].ops = append(plans[c].ops, regIn{Kind: 2})
			}
		}
	}
	var seq atomic.Int64
	hist := make([][]porcupine.Operation, nclients)
	cfg := drawPolicy(tape)
	res := w.RunSim(cfg, func() {
		done := make(chan struct{}, nclients)
		for c := 0; c < nclients; c++ {
			c := c
			simrt.Go(func() {
				defer func() { done <- struct{}{} }()
				for _, in := range plans[c].ops {
					simrt.Yield("harness:registry-op")
					call := seq.Add(1)
					var out regOut
					switch in.Kind {
					case 0:
						fs := make([]solver.Hint, len(in.Order))
						for i, p := range in.Order {
							fs[i] = window[p]
						}
						solver.RegisterHint(fs...)
					case 1:
						out.Present = solver.GetRegisteredHint(ids[in.Pos]) != nil
					default:
						out.Mask = snapshot()
					}
					ret := seq.Add(1)
					hist[c] = append(hist[c], porcupine.Operation{ClientId: c, Input: in, Call: call, Output: out, Return: ret})
				}
			})
		}
		for c := 0; c < nclients; c++ {
			<-done
			simrt.Yield("harness:joined")
		}
	})
	o.Sims = append(o.Sims, res)
	o.NonTrivial = true
	o.probe("mode:registry")
	o.probe("policy:" + simrt.PolicyNames[cfg.Policy])
	if simViolation(o, &res, "registry") {
		return o
	}
	var ops []porcupine.Operation
	for _, h := range hist {
		ops = append(ops, h...)
	}
	sort.Slice(ops, func(i, j int) bool { return ops[i].Call < ops[j].Call })
	model := regModel
	model.Init = func() interface{} { return init }
	o.Evals += len(ops)
	verdict := porcupine.CheckOperationsTimeout(model, ops, 10*time.Second)
	switch verdict {
	case porcupine.Ok:
		o.probe("registry_history_linearizable")
	case porcupine.Unknown:
		o.probe("porcupine_timeout_inconclusive")
	default:
		var sb strings.Builder
		for _, op := range ops {
			fmt.Fprintf(&sb, "  [%d,%d] client %d: %s\n", op.Call, op.Return, op.ClientId, model.DescribeOperation(op.Input, op.Output))
		}
		o.violate("registry-not-linearizable", "registry-not-linearizable:hint-registry", fmt.Sprintf("the history of the hint registry is not linearizable against a grow-only set (initial window mask %b):\n%s", init, sb.String()))
		o.Viol.Trace = res.Trace
	}
	o.Desc = fmt.Sprintf("registry clients=%d window@%d tape=%x", nclients, start, simrt.TapeHash(tape.Recorded()))
	return o
}
