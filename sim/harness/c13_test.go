package harness

import (
	"fmt"
	"strings"
	"math/big"

	"github.com/consensys/gnark/frontend"
	"github.com/consensys/gnark/std/lookup/logderivlookup"
	"github.com/consensys/gnark/std/math/bitslice"
	"github.com/consensys/gnark/std/math/cmp"
	"github.com/consensys/gnark/std/math/uints"
	"github.com/consensys/gnark/std/rangecheck"
	"github.com/consensys/gnark/std/selector"
	"verifsim/simrt"
)

// C13 (range checks, lookup tables) and C14 (comparison, selection, bit-slice, small-integer
// gadgets) under the hint nemesis: whatever limb, multiplicity, indicator, mask, minimum or
// partition values the hints supply, a satisfied circuit shows the documented result, and
// inputs outside the documented domain stay unsatisfiable where the documentation promises it.

// ---- C13 -------------------------------------------------------------------------------

type rcCircuit struct {
	X, Y frontend.Variable
	n, m int
	reps int // Y is checked reps times (many wide checks make the gadget choose wider limbs)
}

func (c *rcCircuit) Define(api frontend.API) error {
	rc := rangecheck.New(api)
	rc.Check(c.X, c.n)
	if c.m > 0 {
		for i := 0; i < max(1, c.reps); i++ {
			rc.Check(c.Y, c.m)
		}
	}
	return nil
}

func aroundPow2(tape *simrt.Tape, q *big.Int, n int) *big.Int {
	switch tape.Choose(simrt.SWorkload, 8) {
	case 0:
		return drawBiased(tape, q)
	case 6, 7:
		// t / 2^s mod q: huge field elements that become small when scaled by a power of two
		// (the values a check on a shifted limb alone would let through)
		t := bi(int64(1 + tape.Choose(simrt.SWorkload, 7)))
		sh := new(big.Int).Lsh(bi(1), uint(1+tape.Choose(simrt.SWorkload, 20)))
		sh.ModInverse(sh, q)
		return t.Mul(t, sh).Mod(t, q)
	case 1:
		x := new(big.Int).Lsh(bi(1), uint(n))
		return x.Mod(x, q)
	case 2:
		x := new(big.Int).Lsh(bi(1), uint(n))
		x.Sub(x, bi(1))
		return x.Mod(x, q) // a width of the field's bit length reaches beyond the modulus
	case 3:
		x := new(big.Int).Lsh(bi(1), uint(n))
		x.Add(x, bi(int64(1+tape.Choose(simrt.SWorkload, 5))))
		return x.Mod(x, q)
	default:
		// a value inside the range
		x := new(big.Int)
		for i := 0; i < (n+31)/32; i++ {
			x.Lsh(x, 32).Or(x, bi(int64(tape.Raw(simrt.SWorkload))))
		}
		m := new(big.Int).Lsh(bi(1), uint(n))
		x.Mod(x, m)
		return x.Mod(x, q)
	}
}

func rcCase(n, m int) *gcase { return rcCaseReps(n, m, 1) }

func rcCaseReps(n, m, reps int) *gcase {
	name := fmt.Sprintf("rangecheck%d+%d", n, m)
	if reps > 1 {
		name += fmt.Sprintf("x%d", reps)
	}
	return &gcase{
		Name:    name,
		Circuit: &rcCircuit{n: n, m: m, reps: reps},
		SmallOK: false,
		Assign: func(tape *simrt.Tape, q *big.Int) (frontend.Circuit, bool, func(map[int][]*big.Int) string, string) {
			x := aroundPow2(tape, q, n)
			y := bi(0)
			if m > 0 {
				y = aroundPow2(tape, q, m)
			}
			sat := x.BitLen() <= n && (m == 0 || y.BitLen() <= m)
			return &rcCircuit{X: x, Y: y, n: n, m: m, reps: reps}, sat, func(map[int][]*big.Int) string { return "" }, fmt.Sprintf("x=%s y=%s", x, y)
		},
	}
}

type lookupCircuit struct {
	E    []frontend.Variable
	Idx  []frontend.Variable
	R    frontend.Variable
	rbit int
	// constant entries around the variable ones: pads[0] before, pads[1] in the middle, pads[2] after
	pads [3]int
}

// lookupLayout lists the table as (position of the variable entry, or -1-k for the constant 7+k)
func lookupLayout(size int, pads [3]int) []int {
	var l []int
	k := 0
	add := func(n int) {
		for i := 0; i < n; i++ {
			l = append(l, -1-k)
			k++
		}
	}
	add(pads[0])
	for i := 0; i < size; i++ {
		if i == size/2 {
			add(pads[1])
		}
		l = append(l, i)
	}
	add(pads[2])
	return l
}

func (c *lookupCircuit) Define(api frontend.API) error {
	t := logderivlookup.New(api)
	for _, e := range lookupLayout(len(c.E), c.pads) {
		if e >= 0 {
			t.Insert(c.E[e])
		} else {
			t.Insert(7 + (-1 - e))
		}
	}
	out := t.Lookup(c.Idx...)
	probe(api, 1, out...)
	if c.rbit > 0 {
		// an independent gadget in the same circuit (shares the commitment machinery)
		rangecheck.New(api).Check(c.R, c.rbit)
	}
	return nil
}

func lookupCase(size, queries, rbit int) *gcase { return lookupCasePads(size, queries, rbit, [3]int{}) }

func lookupCasePads(size, queries, rbit int, pads [3]int) *gcase {
	mk := func() *lookupCircuit {
		return &lookupCircuit{E: make([]frontend.Variable, size), Idx: make([]frontend.Variable, queries), rbit: rbit, pads: pads}
	}
	name := fmt.Sprintf("lookup%dx%d+rc%d", size, queries, rbit)
	if pads != [3]int{} {
		name += fmt.Sprintf("+pads%v", pads)
	}
	layout := lookupLayout(size, pads)
	total := len(layout)
	var lastEnts []*big.Int
	return &gcase{
		Name:        name,
		Circuit:     mk(),
		NeedsCommit: true,
		// every variable entry of the table must be among the values committed before the
		// challenge of the log-derivative argument is derived (a table left out of the commitment
		// can be chosen after the challenge is known)
		BaseCheck: func(honest []hintCall) string {
			committed := map[string]bool{}
			ncommit := 0
			for _, c := range honest {
				if strings.HasSuffix(c.Name, "hashCommitHint") {
					ncommit++
					for _, x := range c.In {
						committed[x.String()] = true
					}
				}
			}
			if ncommit == 0 {
				return ""
			}
			for i, e := range lastEnts {
				if !committed[e.String()] {
					return fmt.Sprintf("the value of variable table entry %d (%s) is not among the %d values committed for the lookup argument's challenge", i, e, len(committed))
				}
			}
			return ""
		},
		Assign: func(tape *simrt.Tape, q *big.Int) (frontend.Circuit, bool, func(map[int][]*big.Int) string, string) {
			a := mk()
			ents := make([]*big.Int, size)
			for i := range ents {
				ents[i] = drawBiased(tape, q)
				if tape.Choose(simrt.SWorkload, 4) == 0 && i > 0 {
					ents[i] = new(big.Int).Set(ents[i-1]) // repeated entries
				}
				a.E[i] = ents[i]
			}
			lastEnts = ents
			size := total // indices address the whole table, constants included
			sat := true
			idx := make([]*big.Int, queries)
			for j := range idx {
				switch tape.Choose(simrt.SWorkload, 6) {
				case 0:
					idx[j] = bi(int64(size)) // first index outside the table
				case 1:
					idx[j] = bi(int64(size - 1))
				case 2:
					idx[j] = drawBiased(tape, q)
				case 3:
					if j > 0 {
						idx[j] = new(big.Int).Set(idx[j-1]) // repeated query
						break
					}
					fallthrough
				default:
					idx[j] = bi(int64(tape.Choose(simrt.SWorkload, size)))
				}
				if idx[j].Cmp(bi(int64(size))) >= 0 {
					sat = false
				}
				a.Idx[j] = idx[j]
			}
			r := bi(0)
			if rbit > 0 {
				r = aroundPow2(tape, q, rbit)
				if r.BitLen() > rbit {
					sat = false
				}
			}
			a.R = r
			check := func(p map[int][]*big.Int) string {
				want := make([]*big.Int, queries)
				for j := range want {
					if e := layout[idx[j].Int64()]; e >= 0 {
						want[j] = ents[e]
					} else {
						want[j] = bi(int64(7 + (-1 - e)))
					}
				}
				return eqInts(p[1], want...)
			}
			return a, sat, check, fmt.Sprintf("idx=%v r=%s", idx, r)
		},
	}
}

var c13Cases = []*gcase{
	rcCaseReps(3, 64, 64), rcCaseReps(1, 32, 100), rcCaseReps(5, 16, 200), rcCaseReps(7, 64, 40), rcCaseReps(2, 60, 300), rcCaseReps(12, 64, 2000),
	rcCase(1, 0), rcCase(3, 0), rcCase(8, 0), rcCase(11, 5), rcCase(16, 64), rcCase(31, 0), rcCase(64, 7), rcCase(100, 0), rcCase(253, 0),
	lookupCase(1, 1, 0), lookupCase(2, 2, 0), lookupCase(5, 3, 0), lookupCase(16, 4, 9), lookupCase(40, 2, 0), lookupCase(300, 3, 12),
	lookupCasePads(4, 2, 0, [3]int{0, 0, 1}), lookupCasePads(6, 3, 0, [3]int{0, 0, 4}), lookupCasePads(5, 2, 8, [3]int{2, 0, 0}), lookupCasePads(8, 3, 0, [3]int{1, 2, 3}),
}

func c13Run(w *Worker, tape *simrt.Tape) *Outcome {
	var fields []sField
	for _, c := range w.curves() {
		fields = append(fields, sField{Name: c.String(), Q: c.ScalarField(), Curve: c})
	}
	return nemesisRun(w, tape, "C13", c13Cases, fields)
}

// ---- C14 -------------------------------------------------------------------------------

type gadgetCircuit struct {
	A, B, S frontend.Variable
	In      []frontend.Variable
	kind    string
	n       int
	bound   *big.Int
}

func (c *gadgetCircuit) Define(api frontend.API) error {
	switch c.kind {
	case "isless":
		probe(api, 1, cmp.IsLess(api, c.A, c.B), cmp.IsLessOrEqual(api, c.A, c.B), cmp.IsEqual(api, c.A, c.B))
	case "bounded":
		bc := cmp.NewBoundedComparator(api, c.bound, false)
		probe(api, 1, bc.IsLess(c.A, c.B), bc.IsLessEq(c.A, c.B), bc.Min(c.A, c.B))
	case "bounded-big":
		// deterministic mode with a bound relative to the field: 2^(FieldBitLen - n)
		bc := cmp.NewBoundedComparator(api, new(big.Int).Lsh(big.NewInt(1), uint(api.Compiler().FieldBitLen()-c.n)), false)
		probe(api, 1, bc.IsLess(c.A, c.B), bc.IsLessEq(c.A, c.B))
	case "bounded-assert":
		bc := cmp.NewBoundedComparator(api, c.bound, false)
		bc.AssertIsLessEq(c.A, c.B)
	case "bounded-assertless":
		bc := cmp.NewBoundedComparator(api, c.bound, false)
		bc.AssertIsLess(c.A, c.B)
	case "mux":
		probe(api, 1, selector.Mux(api, c.S, c.In...))
	case "map":
		keys := make([]frontend.Variable, len(c.In))
		for i := range keys {
			keys[i] = 10 + 3*i
		}
		probe(api, 1, selector.Map(api, c.S, keys, c.In))
	case "slice":
		probe(api, 1, selector.Slice(api, c.A, c.B, c.In)...)
	case "partition":
		probe(api, 1, selector.Partition(api, c.S, c.n == 1, c.In)...)
	case "bitslice":
		nd := int(c.bound.Int64())
		if nd <= 0 {
			// relative to the field: 0 = exactly the field's bit length, -1 = one below, ...
			nd += api.Compiler().FieldBitLen()
		}
		lo, hi := bitslice.Partition(api, c.A, uint(c.n), bitslice.WithNbDigits(nd))
		probe(api, 1, lo, hi)
	case "uints32":
		u, err := uints.New[uints.U32](api)
		if err != nil {
			return err
		}
		a, b := u.ValueOf(c.A), u.ValueOf(c.B)
		probe(api, 1, u.ToValue(u.And(a, b)), u.ToValue(u.Or(a, b)), u.ToValue(u.Xor(a, b)), u.ToValue(u.Add(a, b)), u.ToValue(u.Lrot(a, c.n)), u.ToValue(u.Rshift(a, c.n)), u.ToValue(u.Not(a)))
	case "byte":
		u, err := uints.New[uints.U32](api)
		if err != nil {
			return err
		}
		v := u.ByteValueOf(c.A)
		probe(api, 1, v.Val)
	}
	return nil
}

func smallSigned(tape *simrt.Tape, q *big.Int) *big.Int {
	v := bi(int64(tape.Choose(simrt.SWorkload, 2000)) - 1000)
	return v.Mod(v, q)
}

func gadgetCase(kind string, n int, bound int64) *gcase {
	name := fmt.Sprintf("%s/%d/%d", kind, n, bound)
	mk := func() *gadgetCircuit {
		c := &gadgetCircuit{kind: kind, n: n, bound: bi(bound)}
		switch kind {
		case "mux", "map", "slice", "partition":
			c.In = make([]frontend.Variable, n)
			if kind == "partition" {
				c.In = make([]frontend.Variable, int(bound))
			}
		}
		return c
	}
	needsCommit := kind == "uints32" || kind == "byte" || kind == "bitslice"
	return &gcase{
		Name:        name,
		Circuit:     mk(),
		NeedsCommit: needsCommit,
		// the bounded comparator in deterministic mode documents a single, well-defined behaviour
		// even outside its domain, and a panic at construction for bounds that are too big
		Unique:        kind == "bounded" || kind == "bounded-big",
		MayNotCompile: kind == "bounded-big",
		Assign: func(tape *simrt.Tape, q *big.Int) (frontend.Circuit, bool, func(map[int][]*big.Int) string, string) {
			c := mk()
			a, b, s := drawBiased(tape, q), drawBiased(tape, q), bi(0)
			ins := make([]*big.Int, len(c.In))
			for i := range ins {
				ins[i] = drawBiased(tape, q)
				c.In[i] = ins[i]
			}
			sat := true
			check := func(map[int][]*big.Int) string { return "" }
			b01 := func(v bool) *big.Int {
				if v {
					return bi(1)
				}
				return bi(0)
			}
			switch kind {
			case "isless":
				if tape.Choose(simrt.SWorkload, 4) == 0 {
					b = new(big.Int).Add(a, bi(int64(tape.Choose(simrt.SWorkload, 3)-1)))
					b.Mod(b, q)
				}
				check = func(p map[int][]*big.Int) string {
					return eqInts(p[1], b01(a.Cmp(b) < 0), b01(a.Cmp(b) <= 0), b01(a.Cmp(b) == 0))
				}
			case "bounded", "bounded-assert", "bounded-assertless":
				// signed integers with a small or a chosen difference
				a = smallSigned(tape, q)
				var d *big.Int
				switch tape.Choose(simrt.SWorkload, 6) {
				case 0:
					d = bi(0)
				case 1:
					d = bi(bound) // the documented maximum
				case 2:
					d = bi(-bound)
				case 3:
					d = bi(bound + 1 + int64(tape.Choose(simrt.SWorkload, 50))) // beyond the bound: fail or be right
				case 4:
					d = bi(-(bound + 1 + int64(tape.Choose(simrt.SWorkload, 50))))
				default:
					d = bi(int64(tape.Choose(simrt.SWorkload, int(2*bound+1))) - bound)
				}
				b = new(big.Int).Add(a, d)
				b.Mod(b, q)
				inDomain := new(big.Int).Abs(d).Cmp(bi(bound)) <= 0
				less, leq := d.Sign() > 0, d.Sign() >= 0
				min := a
				if !leq {
					min = b
				}
				switch kind {
				case "bounded":
					sat = inDomain
					check = func(p map[int][]*big.Int) string { return eqInts(p[1], b01(less), b01(leq), min) }
				case "bounded-assert":
					sat = inDomain && leq
					check = func(map[int][]*big.Int) string {
						if !leq {
							return "AssertIsLessEq(a, b) is satisfied although a > b"
						}
						return ""
					}
				case "bounded-assertless":
					sat = inDomain && less
					check = func(map[int][]*big.Int) string {
						if !less {
							return "AssertIsLess(a, b) is satisfied although a >= b"
						}
						return ""
					}
				}
				if !inDomain {
					// documented: either no proof, or the correct result: "sat" is free, outputs are not
					return fixAB(c, a, b, s), sat, check, "free-verdict:" + fmt.Sprintf("a=%s d=%s", a, d)
				}
			case "bounded-big":
				// differences around the bound 2^(fb-n) and in the zone next to the modulus where the
				// documentation only promises determinism
				L := new(big.Int).Lsh(bi(1), uint(q.BitLen()-n))
				a = new(big.Int)
				var d *big.Int
				switch tape.Choose(simrt.SWorkload, 6) {
				case 0:
					d = new(big.Int).Sub(new(big.Int).Lsh(bi(1), uint(q.BitLen()-1)), bi(1)) // 2^(fb-1) - 1
				case 1:
					d = new(big.Int).Sub(L, bi(int64(tape.Choose(simrt.SWorkload, 3))))
				case 2:
					d = new(big.Int).Sub(q, new(big.Int).Add(L, bi(int64(tape.Choose(simrt.SWorkload, 5)))))
				case 3:
					d = new(big.Int).Lsh(L, 1)
					d.Sub(d, bi(int64(1+tape.Choose(simrt.SWorkload, 5))))
				case 4:
					d = drawValue(tape, q)
				default:
					d = bi(int64(tape.Choose(simrt.SWorkload, 1000)))
				}
				if tape.Choose(simrt.SWorkload, 2) == 0 {
					a, b = new(big.Int).Mod(d, q), bi(0)
				} else {
					a, b = bi(0), new(big.Int).Mod(d, q)
				}
				return fixAB(c, a, b, s), true, func(map[int][]*big.Int) string { return "" }, "free-verdict:" + fmt.Sprintf("a=%s b=%s", a, b)
			case "mux":
				s = bi(int64(tape.Choose(simrt.SWorkload, n+2)))
				if tape.Choose(simrt.SWorkload, 8) == 0 {
					s = drawBiased(tape, q)
				}
				sat = s.Cmp(bi(int64(n))) < 0
				check = func(p map[int][]*big.Int) string { return eqInts(p[1], ins[s.Int64()]) }
			case "map":
				k := tape.Choose(simrt.SWorkload, n+1)
				s = bi(int64(10 + 3*k))
				if tape.Choose(simrt.SWorkload, 6) == 0 {
					s = bi(int64(11 + 3*k)) // not a key
					k = n
				}
				sat = k < n
				check = func(p map[int][]*big.Int) string { return eqInts(p[1], ins[k]) }
			case "slice":
				st, en := tape.Choose(simrt.SWorkload, n+2), tape.Choose(simrt.SWorkload, n+2)
				a, b = bi(int64(st)), bi(int64(en))
				sat = st <= n && en <= n
				check = func(p map[int][]*big.Int) string {
					want := make([]*big.Int, n)
					for i := range want {
						want[i] = bi(0)
						if i >= st && i < en {
							want[i] = ins[i]
						}
					}
					return eqInts(p[1], want...)
				}
			case "partition":
				ln := len(ins)
				pv := tape.Choose(simrt.SWorkload, ln+2)
				s = bi(int64(pv))
				if tape.Choose(simrt.SWorkload, 10) == 0 {
					s = drawBiased(tape, q)
				}
				sat = s.Cmp(bi(int64(ln))) <= 0
				check = func(p map[int][]*big.Int) string {
					want := make([]*big.Int, ln)
					for i := range want {
						want[i] = bi(0)
						if (n == 1) == (int64(i) >= s.Int64()) {
							want[i] = ins[i]
						}
					}
					return eqInts(p[1], want...)
				}
			case "bitslice":
				nd := int(bound)
				if nd <= 0 {
					nd += q.BitLen()
				}
				a = aroundPow2(tape, q, nd)
				sat = a.BitLen() <= nd
				check = func(p map[int][]*big.Int) string {
					lo := new(big.Int).And(a, new(big.Int).Sub(new(big.Int).Lsh(bi(1), uint(n)), bi(1)))
					hi := new(big.Int).Rsh(a, uint(n))
					return eqInts(p[1], lo, hi)
				}
			case "uints32":
				a, b = aroundPow2(tape, q, 32), aroundPow2(tape, q, 32)
				sat = a.BitLen() <= 32 && b.BitLen() <= 32
				check = func(p map[int][]*big.Int) string {
					x, y := uint32(a.Uint64()), uint32(b.Uint64())
					rot := x<<uint(n) | x>>(32-uint(n))
					return eqInts(p[1], bi(int64(x&y)), bi(int64(x|y)), bi(int64(x^y)), bi(int64(x+y)), bi(int64(rot)), bi(int64(x>>uint(n))), bi(int64(^x)))
				}
			case "byte":
				a = aroundPow2(tape, q, 8)
				sat = a.BitLen() <= 8
				check = func(p map[int][]*big.Int) string { return eqInts(p[1], a) }
			}
			return fixAB(c, a, b, s), sat, check, fmt.Sprintf("a=%s b=%s s=%s", a, b, s)
		},
	}
}

func fixAB(c *gadgetCircuit, a, b, s *big.Int) *gadgetCircuit {
	c.A, c.B, c.S = a, b, s
	return c
}

var c14Cases = []*gcase{
	gadgetCase("isless", 0, 0),
	gadgetCase("bounded", 0, 1), gadgetCase("bounded", 0, 100), gadgetCase("bounded", 0, 65535), gadgetCase("bounded-assert", 0, 100), gadgetCase("bounded-assertless", 0, 7), gadgetCase("bounded-big", 2, 0), gadgetCase("bounded-big", 3, 0), gadgetCase("bounded-big", 4, 0),
	gadgetCase("mux", 2, 0), gadgetCase("mux", 3, 0), gadgetCase("mux", 5, 0), gadgetCase("mux", 8, 0), gadgetCase("mux", 9, 0),
	gadgetCase("map", 1, 0), gadgetCase("map", 4, 0), gadgetCase("map", 7, 0),
	gadgetCase("slice", 2, 0), gadgetCase("slice", 5, 0), gadgetCase("slice", 8, 0),
	gadgetCase("partition", 0, 3), gadgetCase("partition", 1, 6), gadgetCase("partition", 0, 9),
	gadgetCase("bitslice", 4, 16), gadgetCase("bitslice", 13, 40), gadgetCase("bitslice", 1, 2), gadgetCase("bitslice", 8, 0), gadgetCase("bitslice", 100, 0), gadgetCase("bitslice", 5, -1), gadgetCase("bitslice", 64, -2),
	gadgetCase("uints32", 7, 0), gadgetCase("uints32", 31, 0), gadgetCase("byte", 0, 0),
}

func c14Run(w *Worker, tape *simrt.Tape) *Outcome {
	var fields []sField
	for _, c := range w.curves() {
		fields = append(fields, sField{Name: c.String(), Q: c.ScalarField(), Curve: c})
	}
	return nemesisRun(w, tape, "C14", c14Cases, fields)
}

func init() {
	register(&Engine{Name: "c13", Prop: "C13", Run: c13Run})
	register(&Engine{Name: "c14", Prop: "C14", Run: c14Run})
}
