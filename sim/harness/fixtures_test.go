package harness

import (
	"bytes"
	"fmt"
	"io"
	"math/big"
	"regexp"
	"strings"

	"github.com/consensys/gnark-crypto/ecc"
	"github.com/consensys/gnark/backend/groth16"
	"github.com/consensys/gnark/backend/plonk"
	"github.com/consensys/gnark/backend/witness"
	"github.com/consensys/gnark/constraint"
	"github.com/consensys/gnark/frontend"
	"github.com/consensys/gnark/frontend/cs/r1cs"
	"github.com/consensys/gnark/frontend/cs/scs"
	"github.com/consensys/gnark/test/unsafekzg"
	"verifsim/simrt"
)

const (
	beGroth16 = 0
	bePlonk   = 1
)

var beNames = []string{"groth16", "plonk"}

var allCurves = []ecc.ID{ecc.BN254, ecc.BLS12_381, ecc.BLS12_377, ecc.BW6_761, ecc.BLS24_315, ecc.BLS24_317, ecc.BW6_633}

// curvesFor returns the curves a tier explores: quick = BN254 + one curve rotating with the
// seed; thorough = all.
func (w *Worker) curves() []ecc.ID {
	if c := w.param("curves", ""); c != "" {
		var out []ecc.ID
		for _, n := range strings.Split(c, "+") {
			for _, id := range allCurves {
				if id.String() == n {
					out = append(out, id)
				}
			}
		}
		return out
	}
	if w.Thorough {
		return allCurves
	}
	return []ecc.ID{ecc.BN254, allCurves[1+int(w.Seed%6)]}
}

// wit is one entry of a fixture's witness pool.
type wit struct {
	Valid bool
	Full  witness.Witness
	Pub   witness.Witness
	In    []*big.Int
}

// Fixture is a generated circuit compiled for one backend on one curve, with keys and a
// pool of witnesses.
type Fixture struct {
	Backend int
	Curve   ecc.ID
	Prog    *Prog
	In      []*big.Int
	CCS     constraint.ConstraintSystem
	PK      any
	VK      any
	Wits    []wit
	CCSBytes []byte
	solo    map[string]*callResult
	NbCons  int
}

type fxKey struct {
	be    int
	curve ecc.ID
	slot  int
	feat  GenFeat
}

var fxCache = map[fxKey]*Fixture{}

func compileProg(p *Prog, be int, curve ecc.ID) (constraint.ConstraintSystem, error) {
	if be == beGroth16 {
		return frontend.Compile(curve.ScalarField(), r1cs.NewBuilder, NewGC(p))
	}
	return frontend.Compile(curve.ScalarField(), scs.NewBuilder, NewGC(p))
}

// fixture returns the fixture of a slot (built on first use from a tape keyed by the
// worker seed and the slot, so that it is a pure function of (seed, slot, parameters)).
func (w *Worker) fixture(be int, curve ecc.ID, slot int, feat GenFeat, withKeys bool) (*Fixture, error) {
	k := fxKey{be, curve, slot, feat}
	if fx, ok := fxCache[k]; ok {
		if withKeys && fx.PK == nil {
			if err := fx.setup(); err != nil {
				return nil, err
			}
		}
		return fx, nil
	}
	saved := w.ent
	defer func() { w.SetEntropy(saved.Key, saved.Mode, saved.FailAt) }()
	w.SetEntropy(simrt.Mix(w.Seed, uint64(slot))^0xf1, simrt.EntKeyed, 0)
	ft := simrt.NewTape(simrt.Mix(w.Seed^0xf17, uint64(slot)*131+uint64(be)))
	q := curve.ScalarField()
	p, in := GenProg(ft, q, feat)
	fx := &Fixture{Backend: be, Curve: curve, Prog: p, In: in, solo: map[string]*callResult{}}
	ccs, err := compileProg(p, be, curve)
	if err != nil {
		return nil, fmt.Errorf("compile %s: %w", p, err)
	}
	fx.CCS = ccs
	fx.NbCons = ccs.GetNbConstraints()
	var buf bytes.Buffer
	if _, err := ccs.WriteTo(&buf); err != nil {
		return nil, err
	}
	fx.CCSBytes = buf.Bytes()
	// witness pool: the generated inputs, perturbations of them, and one broken assignment
	add := func(in []*big.Int, brk int) error {
		a := p.Assign(in, q, brk)
		full, err := frontend.NewWitness(a, q)
		if err != nil {
			return err
		}
		pub, err := full.Public()
		if err != nil {
			return err
		}
		fx.Wits = append(fx.Wits, wit{Valid: brk < 0, Full: full, Pub: pub, In: in})
		return nil
	}
	if err := add(in, -1); err != nil {
		return nil, err
	}
	for tries := 0; len(fx.Wits) < 3 && tries < 20; tries++ {
		in2 := make([]*big.Int, len(in))
		for i := range in {
			in2[i] = new(big.Int).Set(in[i])
		}
		j := ft.Choose(simrt.SWorkload, len(in))
		in2[j] = drawValue(ft, q)
		if in2[j].Cmp(in[j]) == 0 {
			in2[j].Add(in2[j], big.NewInt(int64(1+tries))).Mod(in2[j], q)
		}
		if !p.ValidInputs(in2, q) {
			continue
		}
		if err := add(in2, -1); err != nil {
			return nil, err
		}
	}
	if err := add(in, 0); err != nil {
		return nil, err
	}
	// a second kind of invalid witness: a scaled boolean that is not boolean any more
	for _, op := range p.Ops {
		if op.Kind == opBoolScaled {
			in3 := make([]*big.Int, len(in))
			for i := range in {
				in3[i] = new(big.Int).Set(in[i])
			}
			in3[op.A] = big.NewInt(1)
			if !p.ValidInputs(in3, q) && p.divisionsDefined(in3, q) {
				a := p.Assign(in3, q, -1)
				if full, err := frontend.NewWitness(a, q); err == nil {
					if pub, err := full.Public(); err == nil {
						fx.Wits = append(fx.Wits, wit{Valid: false, Full: full, Pub: pub, In: in3})
					}
				}
			}
			break
		}
	}
	if withKeys {
		if err := fx.setup(); err != nil {
			return nil, err
		}
	}
	fxCache[k] = fx
	return fx, nil
}

func (fx *Fixture) setup() error {
	switch fx.Backend {
	case beGroth16:
		pk, vk, err := groth16.Setup(fx.CCS)
		if err != nil {
			return err
		}
		fx.PK, fx.VK = pk, vk
	case bePlonk:
		srs, srsL, err := unsafekzg.NewSRS(fx.CCS, unsafekzg.WithToxicSeed([]byte("verif-fixed-srs")))
		if err != nil {
			return err
		}
		pk, vk, err := plonk.Setup(fx.CCS, srs, srsL)
		if err != nil {
			return err
		}
		fx.PK, fx.VK = pk, vk
	}
	return nil
}

// callResult is the observable result of one API call.
type callResult struct {
	ErrClass string // "" = success
	Err      string
	Bytes    []byte // serialised solution / proof
	Obj      any
	Ambiguous bool // some entropy draw of the call had a schedule-dependent identity
}

var reUnsat = regexp.MustCompile(`constraint #\d+ is not satisfied|is not satisfied|not satisfied`)

func errClass(err error) string {
	if err == nil {
		return ""
	}
	s := err.Error()
	switch {
	case reUnsat.MatchString(s):
		return "unsatisfied"
	case strings.Contains(s, "invalid witness size"):
		return "witness-size"
	case strings.Contains(s, "missing hint"):
		return "missing-hint"
	case strings.Contains(s, "hint"):
		return "hint"
	case strings.Contains(s, "injected entropy failure") || strings.Contains(s, "unexpected EOF"):
		return "entropy"
	case strings.Contains(s, "pairing") || strings.Contains(s, "algebraic relation") || strings.Contains(s, "invalid proof") || strings.Contains(s, "verif"):
		return "verify-reject"
	}
	if len(s) > 60 {
		s = s[:60]
	}
	return "other:" + s
}

func toBytes(x any) []byte {
	wt, ok := x.(io.WriterTo)
	if !ok {
		return []byte(fmt.Sprintf("%T not serialisable", x))
	}
	var buf bytes.Buffer
	if _, err := wt.WriteTo(&buf); err != nil {
		return []byte("serialisation error: " + err.Error())
	}
	return buf.Bytes()
}

func (r *callResult) equal(o *callResult) bool {
	return r.ErrClass == o.ErrClass && bytes.Equal(r.Bytes, o.Bytes)
}

func (r *callResult) short() string {
	if r.ErrClass != "" {
		return "err[" + r.ErrClass + "] " + truncate(r.Err, 160)
	}
	return fmt.Sprintf("ok %d bytes h=%x", len(r.Bytes), hash64(string(r.Bytes)))
}
