package harness

import (
	"bytes"
	"fmt"
	"github.com/consensys/gnark/std/math/emulated"
	"github.com/consensys/gnark/std/math/emulated/emparams"

	"github.com/consensys/gnark-crypto/ecc"
	"github.com/consensys/gnark/backend/groth16"
	"github.com/consensys/gnark/backend/plonk"
	"github.com/consensys/gnark/constraint"
	"github.com/consensys/gnark/frontend"
	"github.com/consensys/gnark/frontend/cs/r1cs"
	"github.com/consensys/gnark/frontend/cs/scs"
	"verifsim/simrt"
)

// C11: the same circuit definition is compiled repeatedly: under tape-chosen permutations of
// every map iteration in gnark (S3), with different capacity hints, after other compilations,
// concurrently with compilations of the same and of other circuits under the scheduler (S1),
// and in several processes. Oracle: identical WriteTo bytes everywhere; sampled: keys set up
// for the first compilation prove and verify with a later one.

var c11Feat = GenFeat{Commit: true, Lookup: true, Range: true, Hint: true, Wide: true, Bits: true, MaxOps: 9, MinOps: 1, Emulated: true}

func compileWith(p *Prog, be int, curve ecc.ID, opts ...frontend.CompileOption) ([]byte, constraint.ConstraintSystem, error) {
	var ccs constraint.ConstraintSystem
	var err error
	if be == beGroth16 {
		ccs, err = frontend.Compile(curve.ScalarField(), r1cs.NewBuilder, NewGC(p), opts...)
	} else {
		ccs, err = frontend.Compile(curve.ScalarField(), scs.NewBuilder, NewGC(p), opts...)
	}
	if err != nil {
		return nil, nil, err
	}
	var buf bytes.Buffer
	if _, err := ccs.WriteTo(&buf); err != nil {
		return nil, nil, err
	}
	return buf.Bytes(), ccs, nil
}

func c11Run(w *Worker, tape *simrt.Tape) *Outcome {
	o := &Outcome{}
	ch := func(n int) int { return tape.Choose(simrt.SWorkload, n) }
	curves := w.curves()
	curve := curves[0]
	if ch(4) == 0 {
		curve = curves[ch(len(curves))]
	}
	be := ch(2)
	slot := ch(w.paramInt("slots", 64))
	feat := c11Feat
	feat.WireQuery = be == bePlonk && slot%2 == 0
	// reference: compiled alone, canonical map order (no tape installed)
	simrt.SetMapTape(nil)
	fx, err := w.fixture(be, curve, slot, feat, false)
	if err != nil {
		o.probe("fixture_skipped") // the generated program does not compile (e.g. commits to a constant): not a case
		o.Desc = "skipped: " + err.Error()
		return o
	}
	where := []string{"r1cs", "scs"}[be]
	o.XProc = map[string]string{fmt.Sprintf("ccs/%s/%s/slot%d", where, curve, slot): fmt.Sprintf("%d:%x", len(fx.CCSBytes), hash64(string(fx.CCSBytes)))}
	mode := ch(6)
	modeName := []string{"map-permutation", "capacity", "after-others", "concurrent", "keys-reuse", "same-object"}[mode]
	o.Desc = fmt.Sprintf("%s/%s/slot%d[%s] %s", where, curve, slot, fx.Prog.Kinds(), modeName)
	o.NonTrivial = true
	o.probe("mode:" + modeName)
	if fx.Prog.NUnused > 0 {
		o.probe("wire_query_circuit")
	}
	if fx.Prog.Emul {
		o.probe("emulated_circuit")
	}
	differs := func(b []byte, how string) bool {
		o.Evals++
		if bytes.Equal(b, fx.CCSBytes) {
			return false
		}
		// locate the first difference for the report
		i := 0
		for i < len(b) && i < len(fx.CCSBytes) && b[i] == fx.CCSBytes[i] {
			i++
		}
		o.violate("nondeterministic-compile", "nondeterministic-compile:"+where+":"+how,
			fmt.Sprintf("recompiling the same circuit (%s) gave different bytes: %d vs %d bytes, first difference at offset %d\ncase: %s\nprog: %s", how, len(b), len(fx.CCSBytes), i, o.Desc, fx.Prog))
		return true
	}
	_, _, perm0 := simrt.MapStats()
	switch mode {
	case 0, 1, 2, 4: // sequential variants, all under a map-order tape
		simrt.SetMapTape(tape)
		defer simrt.SetMapTape(nil)
		var opts []frontend.CompileOption
		if mode == 1 {
			opts = append(opts, frontend.WithCapacity(1+ch(5000)))
			o.fault("capacity_hint")
		}
		if mode == 2 {
			for k := 0; k < 1+ch(3); k++ {
				ofx, err := w.fixture(be, curve, (slot+1+k)%w.paramInt("slots", 64), c11Feat, false)
				if err == nil {
					// the other compilations use other options: nothing of theirs may leak
					if _, _, err := compileWith(ofx.Prog, be, curve, noiseOpts(tape, o)...); err != nil {
						o.violate("recompile-failed", "recompile-failed:"+where, err.Error())
						return o
					}
				}
			}
		}
		b, ccs, err := compileWith(fx.Prog, be, curve, opts...)
		if err != nil {
			o.violate("recompile-failed", "recompile-failed:"+where, "second compilation of the same circuit failed: "+err.Error()+"\ncase: "+o.Desc)
			return o
		}
		if differs(b, modeName) {
			return o
		}
		if mode == 4 {
			// keys generated for the first compilation, proof made with the recompiled system
			simrt.SetMapTape(nil)
			if fx.PK == nil {
				if err := fx.setup(); err != nil {
					o.violate("fixture", "fixture:setup:"+beNames[be], err.Error())
					return o
				}
			}
			wt := fx.Wits[0]
			var verr error
			if be == beGroth16 {
				proof, err := groth16.Prove(ccs, fx.PK.(groth16.ProvingKey), wt.Full)
				if err != nil {
					verr = fmt.Errorf("prove: %w", err)
				} else {
					verr = groth16.Verify(proof, fx.VK.(groth16.VerifyingKey), wt.Pub)
				}
			} else {
				proof, err := plonk.Prove(ccs, fx.PK.(plonk.ProvingKey), wt.Full)
				if err != nil {
					verr = fmt.Errorf("prove: %w", err)
				} else {
					verr = plonk.Verify(proof, fx.VK.(plonk.VerifyingKey), wt.Pub)
				}
			}
			o.Evals++
			if verr != nil {
				o.violate("keys-not-reusable", "keys-not-reusable:"+beNames[be], "keys of the first compilation do not work with a recompilation: "+verr.Error()+"\ncase: "+o.Desc)
				return o
			}
		}
	case 5: // the same circuit VALUE compiled again (state a gadget may have cached inside it)
		simrt.SetMapTape(tape)
		defer simrt.SetMapTape(nil)
		compileObj := func(c frontend.Circuit, b int) ([]byte, error) {
			var ccs constraint.ConstraintSystem
			var err error
			if b == beGroth16 {
				ccs, err = frontend.Compile(curve.ScalarField(), r1cs.NewBuilder, c)
			} else {
				ccs, err = frontend.Compile(curve.ScalarField(), scs.NewBuilder, c)
			}
			if err != nil {
				return nil, err
			}
			var buf bytes.Buffer
			_, err = ccs.WriteTo(&buf)
			return buf.Bytes(), err
		}
		type objCase struct {
			name  string
			fresh func() frontend.Circuit
		}
		cases := []objCase{
			{"generated", func() frontend.Circuit { return NewGC(fx.Prog) }},
			{"emulated-variable-modulus", func() frontend.Circuit { return &varModCircuit{} }},
			{"emulated-fixed-modulus", func() frontend.Circuit { return &fixModCircuit{} }},
		}
		oc := cases[ch(len(cases))]
		o.probe("same-object:" + oc.name)
		ref := map[int][]byte{}
		seq := []int{be, be, 1 - be, be}
		if oc.name == "generated" {
			seq = []int{be, be, be} // generated programs are shaped for one builder (wire queries, commitments)
		}
		for _, b := range seq[len(seq)-2:] {
			rb, err := compileObj(oc.fresh(), b)
			if err != nil {
				o.violate("recompile-failed", "recompile-failed:"+where, "compiling a fresh circuit value failed: "+err.Error())
				return o
			}
			ref[b] = rb
		}
		obj := oc.fresh()
		for i, b := range seq {
			got, err := compileObj(obj, b)
			o.Evals++
			if err != nil {
				o.violate("recompile-failed", "recompile-failed:"+where+":same-object:"+oc.name, fmt.Sprintf("compilation %d of the same circuit value (%s builder) failed: %v\ncase: %s", i+1, []string{"r1cs", "scs"}[b], err, o.Desc))
				return o
			}
			if !bytes.Equal(got, ref[b]) {
				o.violate("nondeterministic-compile", "nondeterministic-compile:"+where+":same-object:"+oc.name, fmt.Sprintf("compilation %d of the same circuit value (%s builder) gave %d bytes, a fresh value of the same circuit gives %d (or different content)\ncase: %s", i+1, []string{"r1cs", "scs"}[b], len(got), len(ref[b]), o.Desc))
				return o
			}
		}
	case 3: // concurrent compilations under the scheduler
		cfg := drawPolicy(tape)
		n := 2 + ch(3)
		type job struct {
			prog *Prog
			want []byte
			got  []byte
			err  error
			opts []frontend.CompileOption
		}
		jobs := make([]*job, n)
		for i := range jobs {
			jobs[i] = &job{prog: fx.Prog, want: fx.CCSBytes}
			if i > 0 && ch(2) == 0 {
				ofx, err := w.fixture(be, curve, (slot+i)%w.paramInt("slots", 64), c11Feat, false)
				if err == nil {
					jobs[i] = &job{prog: ofx.Prog, want: ofx.CCSBytes}
					if ch(2) == 0 {
						// a neighbour compiling with other options (its own output is not compared)
						jobs[i].opts = noiseOpts(tape, o)
						jobs[i].want = nil
					}
				}
			}
		}
		res := w.RunSim(cfg, func() {
			done := make(chan struct{}, n)
			for _, j := range jobs {
				j := j
				simrt.Go(func() {
					defer func() { done <- struct{}{} }()
					j.got, _, j.err = compileWith(j.prog, be, curve, j.opts...)
				})
			}
			for range jobs {
				<-done
				simrt.Yield("harness:joined")
			}
		})
		o.Sims = append(o.Sims, res)
		o.probe("policy:" + simrt.PolicyNames[cfg.Policy])
		if simViolation(o, &res, "compile:"+where) {
			o.Viol.Msg += "\ncase: " + o.Desc
			return o
		}
		for i, j := range jobs {
			o.Evals++
			if j.err != nil {
				o.violate("recompile-failed", "recompile-failed:"+where+":concurrent", fmt.Sprintf("compilation %d failed: %v", i, j.err))
				return o
			}
			if j.want != nil && !bytes.Equal(j.got, j.want) {
				o.violate("nondeterministic-compile", "nondeterministic-compile:"+where+":concurrent", fmt.Sprintf("concurrent compilation %d of %d gave different bytes (%d vs %d)\ncase: %s\nprog: %s", i, n, len(j.got), len(j.want), o.Desc, j.prog))
				o.Viol.Trace = res.Trace
				return o
			}
		}
	}
	_, _, perm1 := simrt.MapStats()
	if perm1 > perm0 {
		o.fault("map_order_permuted")
	}
	if o.Sample == nil {
		o.Sample = map[string]any{"case": o.Desc, "bytes": len(fx.CCSBytes), "constraints": fx.NbCons}
	}
	return o
}

// library circuits whose gadgets keep state inside the circuit value
type varModCircuit struct {
	A, B, P, R emulated.Element[emparams.Mod1e512]
}

func (c *varModCircuit) Define(api frontend.API) error {
	f, err := emulated.NewField[emparams.Mod1e512](api)
	if err != nil {
		return err
	}
	r := f.ModMul(&c.A, &c.B, &c.P)
	s := f.ModAdd(r, &c.A, &c.P)
	f.ModAssertIsEqual(s, &c.R, &c.P)
	return nil
}

type fixModCircuit struct {
	A, B, R emulated.Element[emparams.Secp256k1Fp]
}

func (c *fixModCircuit) Define(api frontend.API) error {
	f, err := emulated.NewField[emparams.Secp256k1Fp](api)
	if err != nil {
		return err
	}
	f.AssertIsEqual(f.Add(f.Mul(&c.A, &c.B), &c.A), &c.R)
	return nil
}

// noiseOpts draws compile options for compilations that happen around the one under test.
func noiseOpts(tape *simrt.Tape, o *Outcome) []frontend.CompileOption {
	var opts []frontend.CompileOption
	switch tape.Choose(simrt.SWorkload, 4) {
	case 0:
		opts = append(opts, frontend.WithCompressThreshold([]int{2, 10, 50, 1000}[tape.Choose(simrt.SWorkload, 4)]))
		o.fault("neighbour_compress_threshold")
	case 1:
		opts = append(opts, frontend.WithCapacity(1+tape.Choose(simrt.SWorkload, 100000)))
		o.fault("neighbour_capacity")
	case 2:
		opts = append(opts, frontend.IgnoreUnconstrainedInputs(), frontend.WithCompressThreshold(5))
		o.fault("neighbour_compress_threshold")
	}
	return opts
}

func init() {
	register(&Engine{Name: "c11", Prop: "C11", Run: c11Run})
}
