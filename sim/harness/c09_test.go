package harness

import (
	"bytes"
	"fmt"
	"io"
	"math/big"

	"github.com/consensys/gnark-crypto/ecc"
	"github.com/consensys/gnark/backend/groth16"
	"github.com/consensys/gnark/backend/plonk"
	"github.com/consensys/gnark/backend/witness"
	"github.com/consensys/gnark/constraint"
	"github.com/consensys/gnark/frontend"
	"github.com/consensys/gnark/frontend/cs/r1cs"
	"github.com/consensys/gnark/frontend/cs/scs"
	"github.com/consensys/gnark/std/lookup/logderivlookup"
	"verifsim/simrt"
)

// C09: every artefact (constraint system, proving key, verifying key, proof, witness) is
// written with each encoding it offers to the simulated disk and read back under tape-chosen
// chunking, alone and - for constraint systems, whose decoder is internally concurrent -
// under the scheduler next to other decoders and a solve. Oracle: (i) reported byte counts
// = bytes written = bytes consumed, (ii) re-encoding the decoded object reproduces the
// bytes, (iii) the decoded objects are interchangeable with the originals (same solutions,
// cross verification of proofs between original and decoded systems / keys), (iv) under write
// and read faults an error is returned and nothing partial is reported as success.

var c09Feat = GenFeat{Commit: true, Lookup: true, Range: true, Hint: true, Wide: true, Bits: true, ScaledBool: true, MaxOps: 8, MinOps: 1}

type artefact struct {
	name string
	obj  any
	mk   func() any // fresh empty object of the same kind
}

const (
	encStd = iota
	encRaw
	encDump
)

var encNames = []string{"WriteTo/ReadFrom", "WriteRawTo/ReadFrom", "WriteDump/ReadDump"}

func writeWith(obj any, enc int, w io.Writer) (int64, error, bool) {
	switch enc {
	case encStd:
		n, err := obj.(io.WriterTo).WriteTo(w)
		return n, err, true
	case encRaw:
		if x, ok := obj.(interface {
			WriteRawTo(io.Writer) (int64, error)
		}); ok {
			n, err := x.WriteRawTo(w)
			return n, err, true
		}
	case encDump:
		if x, ok := obj.(interface{ WriteDump(io.Writer) error }); ok {
			return -1, x.WriteDump(w), true
		}
	}
	return 0, nil, false
}

func readWith(obj any, enc int, unsafe bool, r io.Reader) (int64, error) {
	if enc == encDump {
		return -1, obj.(interface{ ReadDump(io.Reader) error }).ReadDump(r)
	}
	if unsafe {
		if x, ok := obj.(interface {
			UnsafeReadFrom(io.Reader) (int64, error)
		}); ok {
			return x.UnsafeReadFrom(r)
		}
	}
	return obj.(io.ReaderFrom).ReadFrom(r)
}

func newCS(be int, curve ecc.ID) constraint.ConstraintSystem {
	if be == beGroth16 {
		return groth16.NewCS(curve)
	}
	return plonk.NewCS(curve)
}

// large artefacts: sizes beyond what the generated circuits reach (limits of the encodings show
// only there): a system with more than 2^17 inputs, a lookup table with more than 2^17/3 entries
type bigInputsCircuit struct {
	X []frontend.Variable
	S frontend.Variable `gnark:",public"`
}

func (c *bigInputsCircuit) Define(api frontend.API) error {
	var acc frontend.Variable = 0
	for i := 0; i < len(c.X); i += 1000 {
		acc = api.Add(acc, api.Mul(c.X[i], c.X[(i+1)%len(c.X)]))
	}
	api.AssertIsEqual(acc, c.S)
	return nil
}

type bigTableCircuit struct {
	I frontend.Variable
	Y frontend.Variable `gnark:",public"`
	n int
}

func (c *bigTableCircuit) Define(api frontend.API) error {
	t := logderivlookup.New(api)
	for i := 0; i < c.n; i++ {
		t.Insert(3*i + 1)
	}
	api.AssertIsEqual(t.Lookup(c.I)[0], c.Y)
	return nil
}

type bigFx struct {
	ccs   constraint.ConstraintSystem
	full  witness.Witness
	bytes []byte
	sol   []byte
	err   error
}

var bigCache = map[string]*bigFx{}

func bigFixture(w *Worker, kind string, be int, curve ecc.ID) *bigFx {
	key := fmt.Sprintf("%s/%d/%s", kind, be, curve)
	if f, ok := bigCache[key]; ok {
		return f
	}
	f := &bigFx{}
	bigCache[key] = f
	q := curve.ScalarField()
	var circuit, assignment frontend.Circuit
	if kind == "inputs" {
		const n = 140_000
		circuit = &bigInputsCircuit{X: make([]frontend.Variable, n)}
		a := &bigInputsCircuit{X: make([]frontend.Variable, n)}
		sum := new(big.Int)
		for i := range a.X {
			a.X[i] = i%97 + 1
		}
		for i := 0; i < n; i += 1000 {
			sum.Add(sum, big.NewInt(int64((i%97+1)*((i+1)%n%97+1))))
		}
		a.S = sum
		assignment = a
	} else {
		const n = 45_000
		circuit = &bigTableCircuit{n: n}
		assignment = &bigTableCircuit{I: 31_000, Y: 3*31_000 + 1, n: n}
	}
	if be == beGroth16 {
		f.ccs, f.err = frontend.Compile(q, r1cs.NewBuilder, circuit)
	} else {
		f.ccs, f.err = frontend.Compile(q, scs.NewBuilder, circuit)
	}
	if f.err != nil {
		return f
	}
	if f.full, f.err = frontend.NewWitness(assignment, q); f.err != nil {
		return f
	}
	// a system with a commitment draws a random mask while solving: both solves compared
	// below get the same entropy
	w.SetEntropy(0xb16a47, simrt.EntRepeat, 0)
	sol, err := f.ccs.Solve(f.full)
	if err != nil {
		f.err = fmt.Errorf("solving the original large system: %w", err)
		return f
	}
	f.sol = toBytes(sol)
	f.bytes = toBytes(f.ccs)
	return f
}

func c09Large(w *Worker, tape *simrt.Tape, o *Outcome) *Outcome {
	kind := []string{"inputs", "table"}[tape.Choose(simrt.SWorkload, 2)]
	be := tape.Choose(simrt.SWorkload, 2)
	curve := w.curves()[0]
	f := bigFixture(w, kind, be, curve)
	where := beNames[be] + ":large-" + kind
	o.Desc = fmt.Sprintf("%s/%s large constraint system (%s)", beNames[be], curve, kind)
	o.NonTrivial = true
	o.probe("large_artefact:" + kind)
	if f.err != nil {
		o.violate("fixture", "fixture:"+where, f.err.Error())
		return o
	}
	rd := simrt.NewReader(f.bytes)
	if tape.Choose(simrt.SIO, 2) == 0 {
		rd.Chunk = simrt.TapeChunker(tape)
	}
	fresh := newCS(be, curve)
	var n int64
	var err error
	if pan := guard(func() { n, err = fresh.ReadFrom(rd) }); pan != "" {
		o.violate("decode-panic", "decode-panic:"+where, pan)
		return o
	}
	o.Evals++
	if err != nil {
		o.violate("decode-failed", "decode-failed:"+where, fmt.Sprintf("reading back a genuine encoding of %d bytes failed: %v", len(f.bytes), err))
		return o
	}
	if int(n) != len(f.bytes) || rd.Consumed() != len(f.bytes) {
		o.violate("byte-count", "byte-count:"+where, fmt.Sprintf("reader reported %d bytes and consumed %d, the encoding has %d", n, rd.Consumed(), len(f.bytes)))
		return o
	}
	if !bytes.Equal(toBytes(fresh), f.bytes) {
		o.violate("reencode-differs", "reencode-differs:"+where, "re-encoding the decoded large system gives different bytes")
		return o
	}
	w.SetEntropy(0xb16a47, simrt.EntRepeat, 0)
	sol, err := fresh.Solve(f.full)
	o.Evals++
	if err != nil || !bytes.Equal(toBytes(sol), f.sol) {
		o.violate("decoded-behaves-differently", "decoded-behaves-differently:"+where, fmt.Sprintf("the decoded large system does not solve the witness to the original solution (err=%v)", err))
	}
	return o
}

func c09Run(w *Worker, tape *simrt.Tape) *Outcome {
	o := &Outcome{}
	ch := func(n int) int { return tape.Choose(simrt.SWorkload, n) }
	if ch(48) == 0 {
		return c09Large(w, tape, o)
	}
	curves := w.curves()
	curve := curves[0]
	if ch(3) == 0 {
		curve = curves[ch(len(curves))]
	}
	be := ch(2)
	slot := ch(w.paramInt("slots", 24))
	fx, err := w.fixture(be, curve, slot, c09Feat, true)
	if err != nil {
		o.probe("fixture_skipped")
		o.Desc = "skipped: " + err.Error()
		return o
	}
	art, err := w.genuineProof(fx)
	if err != nil {
		o.violate("prove-failed", "prove-failed:"+beNames[be], err.Error())
		return o
	}
	where := beNames[be]
	arts := []artefact{
		{"ccs", fx.CCS, func() any { return newCS(be, curve) }},
		{"pk", fx.PK, func() any {
			if be == beGroth16 {
				return groth16.NewProvingKey(curve)
			}
			return plonk.NewProvingKey(curve)
		}},
		{"vk", fx.VK, func() any {
			if be == beGroth16 {
				return groth16.NewVerifyingKey(curve)
			}
			return plonk.NewVerifyingKey(curve)
		}},
		{"proof", art.proof, func() any { return newProof(be, curve) }},
		{"witness", fx.Wits[0].Full, func() any { x, _ := witness.New(curve.ScalarField()); return x }},
		{"public-witness", fx.Wits[0].Pub, func() any { x, _ := witness.New(curve.ScalarField()); return x }},
	}
	a := arts[[]int{0, 0, 0, 1, 1, 2, 3, 4, 5}[ch(9)]]
	enc := ch(3)
	// fall back to the standard encoding where an artefact does not offer the drawn one
	if _, _, offered := writeWith(a.obj, enc, io.Discard); !offered {
		enc = encStd
	}
	unsafe := ch(3) == 0
	scenario := []string{"roundtrip", "roundtrip", "roundtrip", "write-fault", "read-fault", "concurrent-decode"}[ch(6)]
	if scenario == "concurrent-decode" && a.name != "ccs" {
		scenario = "roundtrip"
	}
	o.Desc = fmt.Sprintf("%s/%s/slot%d[%s] %s %s unsafe=%v %s", where, curve, slot, fx.Prog.Kinds(), a.name, encNames[enc], unsafe, scenario)
	o.NonTrivial = true
	fail := func(class, msg string) *Outcome {
		o.violate(class, class+":"+where+":"+a.name+":"+encNames[enc], msg+"\ncase: "+o.Desc+"\nprog: "+fx.Prog.String())
		return o
	}
	// reference encoding
	ref := simrt.NewWriter()
	var n int64
	var ok bool
	if pan := guard(func() { n, err, ok = writeWith(a.obj, enc, ref) }); pan != "" {
		return fail("encode-panic", pan)
	}
	if !ok {
		o.NonTrivial = false
		o.probe("encoding_not_offered")
		return o
	}
	if err != nil {
		return fail("encode-failed", "writing a genuine object failed: "+err.Error())
	}
	o.probe("artefact:" + a.name)
	o.probe("encoding:" + encNames[enc])
	o.Evals++
	if n >= 0 && int(n) != len(ref.Buf) {
		return fail("byte-count", fmt.Sprintf("writer reported %d bytes, %d were written", n, len(ref.Buf)))
	}
	switch scenario {
	case "write-fault":
		if len(ref.Buf) < 2 {
			return o
		}
		fw := simrt.NewWriter()
		fw.FailAt = tape.Choose(simrt.SFault, len(ref.Buf))
		fw.Short = tape.Choose(simrt.SFault, 2) == 1
		fw.Err = []error{simrt.ErrIO, simrt.ErrNoSpace, io.ErrShortWrite}[tape.Choose(simrt.SFault, 3)]
		var werr error
		if pan := guard(func() { _, werr, _ = writeWith(a.obj, enc, fw) }); pan != "" {
			return fail("encode-panic", "panic while the disk failed at byte "+fmt.Sprint(fw.FailAt)+": "+pan)
		}
		o.fault("write_error")
		o.Evals++
		if fw.Injected > 0 && werr == nil {
			return fail("write-error-swallowed", fmt.Sprintf("the disk failed at byte %d (%v) but the writer reported success", fw.FailAt, fw.Err))
		}
		return o
	case "read-fault":
		rd := simrt.NewReader(ref.Buf)
		rd.Chunk = simrt.TapeChunker(tape)
		cut := tape.Choose(simrt.SFault, len(ref.Buf))
		if tape.Choose(simrt.SFault, 2) == 0 {
			rd.Data = ref.Buf[:cut]
			o.fault("truncation")
		} else {
			rd.FailAt = cut
			o.fault("read_error")
		}
		fresh := a.mk()
		var rerr error
		if pan := guard(func() { _, rerr = readWith(fresh, enc, unsafe, rd) }); pan != "" {
			return fail("decode-panic", fmt.Sprintf("panic while reading a stream cut at byte %d of %d: %s", cut, len(ref.Buf), pan))
		}
		o.Evals++
		if rerr == nil {
			return fail("read-fault-swallowed", fmt.Sprintf("the stream ended / failed at byte %d of %d but the reader reported success", cut, len(ref.Buf)))
		}
		return o
	}
	// the artefact is not always the last thing on its stream: with a tape-chosen tail (a second
	// copy of the encoding, or foreign bytes) the reader must stop exactly at the end of the first
	trailing := 0
	if enc != encDump && scenario == "roundtrip" {
		trailing = tape.Choose(simrt.SIO, 3)
	}
	decode := func(chunk simrt.Chunker) (any, *simrt.Reader, int64, error, string) {
		data := ref.Buf
		switch trailing {
		case 1:
			data = append(append([]byte{}, ref.Buf...), ref.Buf...)
		case 2:
			data = append(append([]byte{}, ref.Buf...), bytes.Repeat([]byte{0xa5, 0x00, 0xff, 0x01}, 64)...)
		}
		rd := simrt.NewReader(data)
		rd.Chunk = chunk
		rd.EOFWithData = tape.Choose(simrt.SIO, 3) == 0
		fresh := a.mk()
		var rn int64
		var rerr error
		pan := guard(func() { rn, rerr = readWith(fresh, enc, unsafe, rd) })
		return fresh, rd, rn, rerr, pan
	}
	if trailing != 0 {
		o.probe("trailing_data_after_artefact")
	}
	var dec any
	if scenario == "concurrent-decode" {
		cfg := drawPolicy(tape)
		nd := 2 + ch(2)
		decs := make([]any, nd)
		errs := make([]string, nd)
		var solveRes *callResult
		w.SetEntropy(simrt.Mix(w.Seed^0xc09, uint64(slot)), simrt.EntRepeat, 0)
		res := w.RunSim(cfg, func() {
			done := make(chan struct{}, nd+1)
			for i := 0; i < nd; i++ {
				i := i
				simrt.Go(func() {
					defer func() { done <- struct{}{} }()
					d, rd, rn, rerr, pan := decode(simrt.TapeChunker(tape))
					switch {
					case pan != "":
						errs[i] = "panic: " + pan
					case rerr != nil:
						errs[i] = "error: " + rerr.Error()
					case int(rn) != len(ref.Buf) || rd.Consumed() != len(ref.Buf):
						errs[i] = fmt.Sprintf("byte count: reported %d, consumed %d of %d", rn, rd.Consumed(), len(ref.Buf))
					}
					decs[i] = d
				})
			}
			simrt.Go(func() {
				defer func() { done <- struct{}{} }()
				sol, err := fx.CCS.Solve(fx.Wits[0].Full)
				solveRes = &callResult{}
				if err != nil {
					solveRes.ErrClass = errClass(err)
				} else {
					solveRes.Bytes = toBytes(sol)
				}
			})
			for i := 0; i < nd+1; i++ {
				<-done
				simrt.Yield("harness:joined")
			}
		})
		o.Sims = append(o.Sims, res)
		o.probe("policy:" + simrt.PolicyNames[cfg.Policy])
		if simViolation(o, &res, "decode:"+where) {
			o.Viol.Msg += "\ncase: " + o.Desc
			return o
		}
		for i, e := range errs {
			o.Evals++
			if e != "" {
				return fail("concurrent-decode-failed", fmt.Sprintf("decoder %d of %d: %s", i, nd, e))
			}
		}
		if solveRes == nil || solveRes.ErrClass != "" {
			return fail("solve-next-to-decoders-failed", "solving the original system next to decoders of its bytes failed")
		}
		dec = decs[0]
		for i := 1; i < nd; i++ {
			if !bytes.Equal(toBytes(decs[i]), toBytes(dec)) {
				return fail("decoders-disagree", fmt.Sprintf("decoder %d produced a different object than decoder 0", i))
			}
		}
	} else {
		d, rd, rn, rerr, pan := decode(simrt.TapeChunker(tape))
		if pan != "" {
			return fail("decode-panic", pan)
		}
		if rerr != nil {
			// does the same stream decode when every Read is served in full?
			_, _, _, rerr2, _ := decode(nil)
			if rerr2 == nil {
				if o.violateOrKnown(w, "short-read-intolerant", "short-read-intolerant:"+where+":"+a.name, fmt.Sprintf("the decoder fails (%v) when the reader legally returns fewer bytes than asked (read position %d of %d) and succeeds when every Read is served in full\ncase: %s", rerr, rd.Consumed(), len(ref.Buf), o.Desc)) {
					return o
				}
				d, rd, rn, rerr, pan = decode(nil)
			} else {
				return fail("decode-failed", "reading back a genuine encoding failed: "+rerr.Error())
			}
		}
		o.Evals++
		if rn >= 0 && (int(rn) != len(ref.Buf) || rd.Consumed() != len(ref.Buf)) {
			return fail("byte-count", fmt.Sprintf("reader reported %d bytes and consumed %d, the encoding has %d (%d bytes of other data follow it on the stream)", rn, rd.Consumed(), len(ref.Buf), len(rd.Data)-len(ref.Buf)))
		}
		if trailing == 1 {
			// the second copy must decode from where the first one stopped
			second := a.mk()
			var rn2 int64
			var rerr2 error
			if pan := guard(func() { rn2, rerr2 = readWith(second, enc, unsafe, rd) }); pan != "" {
				return fail("decode-panic", "decoding the second artefact of the stream: "+pan)
			}
			o.Evals++
			if rerr2 != nil || int(rn2) != len(ref.Buf) || rd.Consumed() != 2*len(ref.Buf) {
				return fail("byte-count", fmt.Sprintf("the second copy of the artefact on the same stream did not decode cleanly: err=%v reported %d consumed %d of %d", rerr2, rn2, rd.Consumed(), 2*len(ref.Buf)))
			}
			if !bytes.Equal(toBytes(second), toBytes(d)) {
				return fail("decoders-disagree", "two copies of one encoding on one stream decoded to different objects")
			}
		}
		dec = d
	}
	// (ii) re-encoding reproduces the bytes
	re := simrt.NewWriter()
	if pan := guard(func() { _, err, _ = writeWith(dec, enc, re) }); pan != "" {
		return fail("encode-panic", "re-encoding the decoded object: "+pan)
	}
	o.Evals++
	if err != nil || !bytes.Equal(re.Buf, ref.Buf) {
		i := 0
		for i < len(re.Buf) && i < len(ref.Buf) && re.Buf[i] == ref.Buf[i] {
			i++
		}
		return fail("reencode-differs", fmt.Sprintf("re-encoding the decoded object gives %d bytes vs %d, first difference at %d (err=%v)", len(re.Buf), len(ref.Buf), i, err))
	}
	// (iii) behavioural interchangeability
	w.SetEntropy(simrt.Mix(w.Seed^0xc09, uint64(slot)), simrt.EntRepeat, 0)
	switch a.name {
	case "ccs":
		dcs := dec.(constraint.ConstraintSystem)
		for wi, wt := range fx.Wits {
			o.Evals++
			s1, e1 := fx.CCS.Solve(wt.Full)
			s2, e2 := dcs.Solve(wt.Full)
			if (e1 == nil) != (e2 == nil) || errClass(e1) != errClass(e2) {
				return fail("decoded-system-behaves-differently", fmt.Sprintf("witness %d: original %v, decoded %v", wi, e1, e2))
			}
			if e1 == nil && !bytes.Equal(toBytes(s1), toBytes(s2)) {
				return fail("decoded-system-behaves-differently", fmt.Sprintf("witness %d: the decoded system solves to a different solution", wi))
			}
		}
		// a proof made with the decoded system under the original keys verifies
		w.SetEntropy(simrt.Mix(w.Seed^0xc09, uint64(slot)+1), simrt.EntKeyed, 0)
		var p any
		if be == beGroth16 {
			p, err = groth16.Prove(dcs, fx.PK.(groth16.ProvingKey), fx.Wits[0].Full)
		} else {
			p, err = plonk.Prove(dcs, fx.PK.(plonk.ProvingKey), fx.Wits[0].Full)
		}
		o.Evals++
		if err != nil {
			return fail("decoded-system-behaves-differently", "proving with the decoded system: "+err.Error())
		}
		if verr, _ := verifyAny(be, p, fx.VK, fx.Wits[0].Pub); verr != nil {
			return fail("decoded-system-behaves-differently", "proof made with the decoded system is rejected: "+verr.Error())
		}
	case "pk":
		w.SetEntropy(simrt.Mix(w.Seed^0xc09, uint64(slot)+2), simrt.EntKeyed, 0)
		p, err := proveAny(fx, dec, fx.Wits[0].Full)
		o.Evals++
		if err != nil {
			return fail("decoded-key-behaves-differently", "proving with the decoded proving key: "+err.Error())
		}
		if verr, _ := verifyAny(be, p, fx.VK, fx.Wits[0].Pub); verr != nil {
			return fail("decoded-key-behaves-differently", "proof made with the decoded proving key is rejected: "+verr.Error())
		}
	case "vk":
		o.Evals++
		if verr, pan := verifyAny(be, art.proof, dec, fx.Wits[0].Pub); verr != nil || pan != "" {
			return fail("decoded-key-behaves-differently", fmt.Sprintf("the decoded verifying key rejects a genuine proof: %v %s", verr, pan))
		}
		// and still rejects a wrong statement
		if len(fx.Wits) > 1 && fx.Wits[1].Valid && !bytes.Equal(witnessBytes(fx.Wits[1].Pub), witnessBytes(fx.Wits[0].Pub)) {
			v1, _ := verifyAny(be, art.proof, fx.VK, fx.Wits[1].Pub)
			v2, _ := verifyAny(be, art.proof, dec, fx.Wits[1].Pub)
			if (v1 == nil) != (v2 == nil) {
				return fail("decoded-key-behaves-differently", fmt.Sprintf("original vk says %v, decoded vk says %v for another public input", v1, v2))
			}
		}
	case "proof":
		o.Evals++
		if verr, pan := verifyAny(be, dec, fx.VK, fx.Wits[0].Pub); verr != nil || pan != "" {
			return fail("decoded-proof-rejected", fmt.Sprintf("%v %s", verr, pan))
		}
	case "witness", "public-witness":
		o.Evals++
		dw := dec.(witness.Witness)
		if !bytes.Equal(witnessBytes(dw), witnessBytes(a.obj.(witness.Witness))) {
			return fail("decoded-witness-differs", "MarshalBinary of the decoded witness differs")
		}
		if a.name == "witness" {
			if err := fx.CCS.IsSolved(dw); err != nil {
				return fail("decoded-witness-differs", "the decoded witness does not solve the system: "+err.Error())
			}
			pw, err := dw.Public()
			if err != nil || !bytes.Equal(witnessBytes(pw), witnessBytes(fx.Wits[0].Pub)) {
				return fail("decoded-witness-differs", "Public() of the decoded witness differs from the public witness")
			}
		}
	}
	if o.Sample == nil {
		o.Sample = map[string]any{"case": o.Desc, "bytes": len(ref.Buf), "writes": len(ref.Log)}
	}
	return o
}

func init() {
	register(&Engine{Name: "c09", Prop: "C09", Run: c09Run})
}
