package harness

import (
	"fmt"
	"math/big"
	"strings"

	"github.com/consensys/gnark/constraint/solver"
	"github.com/consensys/gnark/frontend"
	"github.com/consensys/gnark/std/lookup/logderivlookup"
	"github.com/consensys/gnark/std/math/emulated"
	"github.com/consensys/gnark/std/rangecheck"
	"verifsim/simrt"
)

// Tape-driven straight-line programs over the frontend API, with a big-integer evaluator of
// the same program that yields satisfying witnesses.

const (
	opAdd = iota
	opSub
	opMul
	opMulConst
	opAddConst
	opNeg
	opDiv      // a / b, generated only when eval(b) != 0
	opIsZero
	opSelect   // Select(IsZero(a), b, c)
	opLowBits  // FromBinary(ToBinary(a)[0:K])
	opBitOp    // K: 0 xor 1 and 2 or, on the lowest bits of a and b
	opLookup   // table of K entries starting at value index B (witness dependent), index = low bits of A
	opHintSq   // r = hint(a) constrained r == a*a
	opWide     // K independent multiplications v[A+i]*v[B+i] summed up
	opMulAcc   // a + b*c
	opCmpSmall // Cmp of two small (low-bit) values, mapped to {0,1,2} by adding 1
	opRange    // range check of a small value to K bits (no new value: appends a copy)
	opInverse  // 1/a generated only when eval(a) != 0
	opBoolScaled // AssertIsBoolean(K * in[A]) on a free input shaped so that K*in[A] is 0 or 1; value K*in[A]
	opLazyInv    // r = hint(a): 1/a, or the (documented) zero default of an output the hint leaves untouched when a == 0
	numOps
)

// heavy operations (full bit decompositions) are drawn less often
var opWeights = []int{opAdd, opAdd, opSub, opSub, opMul, opMul, opMul, opMulConst, opMulConst, opAddConst, opAddConst, opNeg, opDiv, opDiv, opIsZero, opIsZero,
	opSelect, opSelect, opLowBits, opBitOp, opLookup, opLookup, opHintSq, opHintSq, opWide, opMulAcc, opMulAcc, opCmpSmall, opRange, opInverse, opInverse, opLazyInv, opLazyInv}

var opNames = []string{"add", "sub", "mul", "mulc", "addc", "neg", "div", "iszero", "select", "lowbits", "bitop", "lookup", "hintsq", "wide", "mulacc", "cmp", "range", "inv", "boolscaled", "lazyinv"}

type Op struct {
	Kind    int
	A, B, C int
	K       int
}

// Prog is a generated circuit.
type Prog struct {
	NIn     int   // free inputs (first NPubIn of them public)
	NPubIn  int
	Ops     []Op
	Outs    []int // value indices exposed as public outputs
	Commits [][]int // each: value indices committed together
	Feat    GenFeat
	NUnused int  // extra secret inputs used by no constraint, queried through the wire-constraint interface (scs only)
	Emul    bool // one emulated (secp256k1 base field) multiplication on elements built from bits of two values
}

// GenFeat limits what the generator may emit.
type GenFeat struct {
	Commit   bool
	// ChainCommit: up to five commitments, later ones may commit to the outputs of earlier ones
	// (Commits entries < 0: -(k+1) is the output of commitment k)
	ChainCommit bool
	Lookup   bool
	Range    bool
	Hint     bool
	Wide     bool
	MaxOps   int
	MinOps   int
	Bits     bool
	ScaledBool bool
	WireQuery bool
	Emulated  bool
}

func (p *Prog) String() string {
	var sb strings.Builder
	fmt.Fprintf(&sb, "in=%d pub=%d ", p.NIn, p.NPubIn)
	for _, o := range p.Ops {
		fmt.Fprintf(&sb, "%s(%d,%d,%d;%d) ", opNames[o.Kind], o.A, o.B, o.C, o.K)
	}
	fmt.Fprintf(&sb, "outs=%v commits=%v unused=%d emul=%v", p.Outs, p.Commits, p.NUnused, p.Emul)
	return sb.String()
}

// HasLookup reports whether the program contains a lookup table.
func (p *Prog) HasLookup() bool {
	for _, o := range p.Ops {
		if o.Kind == opLookup {
			return true
		}
	}
	return false
}

// Kinds returns the sorted list of op kinds used (for descriptors).
func (p *Prog) Kinds() string {
	var seen [numOps]bool
	for _, o := range p.Ops {
		seen[o.Kind] = true
	}
	var l []string
	for i, s := range seen {
		if s {
			l = append(l, opNames[i])
		}
	}
	if len(p.Commits) > 0 {
		l = append(l, fmt.Sprintf("commit%d", len(p.Commits)))
	}
	if p.NUnused > 0 {
		l = append(l, fmt.Sprintf("wirequery%d", p.NUnused))
	}
	if p.Emul {
		l = append(l, "emulated")
	}
	return strings.Join(l, "+")
}

func squareHint(q *big.Int, in, out []*big.Int) error {
	out[0].Mul(in[0], in[0]).Mod(out[0], q)
	return nil
}

// lazyInvHint writes its output only when there is an inverse; for 0 it relies on the outputs
// being handed over initialised (to zero), as the Hint documentation states.
func lazyInvHint(q *big.Int, in, out []*big.Int) error {
	if new(big.Int).Mod(in[0], q).Sign() != 0 {
		out[0].ModInverse(in[0], q)
	}
	return nil
}

func init() { solver.RegisterHint(squareHint, lazyInvHint) }

// GenProg draws a program from the tape. q is needed because op validity (division by
// zero) depends on the values, which are drawn together with the program.
func GenProg(tape *simrt.Tape, q *big.Int, feat GenFeat) (*Prog, []*big.Int) {
	ch := func(n int) int { return tape.Choose(simrt.SWorkload, n) }
	p := &Prog{Feat: feat}
	p.NIn = 2 + ch(5)
	p.NPubIn = ch(3)
	if p.NPubIn > p.NIn {
		p.NPubIn = p.NIn
	}
	in := make([]*big.Int, p.NIn)
	for i := range in {
		in[i] = drawValue(tape, q)
	}
	vals := append([]*big.Int(nil), in...)
	if feat.ScaledBool {
		// booleans carried by a wire with a coefficient other than 1 (specialised bool gates with
		// unusual coefficients): shape a secret input so that K * input is 0 or 1
		shaped := map[int]bool{}
		for k := ch(3); k > 0 && p.NIn-p.NPubIn > 0; k-- {
			i := p.NPubIn + ch(p.NIn-p.NPubIn)
			if shaped[i] {
				continue
			}
			shaped[i] = true
			K := []int{-1, 2, -2, 3, -1}[ch(5)]
			bit := int64(ch(2))
			inv := new(big.Int).ModInverse(new(big.Int).Mod(big.NewInt(int64(K)), q), q)
			in[i] = inv.Mul(inv, big.NewInt(bit)).Mod(inv, q)
			vals[i] = in[i]
			o := Op{Kind: opBoolScaled, A: i, K: K}
			p.Ops = append(p.Ops, o)
			vals = append(vals, evalOp(o, vals, q))
		}
	}
	maxOps, minOps := feat.MaxOps, feat.MinOps
	if maxOps == 0 {
		maxOps = 12
	}
	nops := len(p.Ops) + minOps + ch(maxOps-minOps+1)
	for len(p.Ops) < nops {
		kind := opWeights[ch(len(opWeights))]
		n := len(vals)
		o := Op{Kind: kind, A: ch(n), B: ch(n), C: ch(n)}
		switch kind {
		case opMulConst, opAddConst:
			o.K = 1 + ch(1000)
		case opDiv:
			if vals[o.B].Sign() == 0 {
				continue
			}
		case opInverse:
			if vals[o.A].Sign() == 0 {
				continue
			}
		case opLowBits:
			if !feat.Bits {
				continue
			}
			o.K = 1 + ch(4)
		case opBitOp:
			if !feat.Bits {
				continue
			}
			o.K = ch(3)
		case opCmpSmall:
			if !feat.Bits {
				continue
			}
		case opLookup:
			if !feat.Lookup || !feat.Bits {
				continue
			}
			o.K = []int{2, 4, 8}[ch(3)]
			if n < o.K {
				o.K = 2
			}
			o.B = ch(n - o.K + 1)
		case opHintSq, opLazyInv:
			if !feat.Hint {
				continue
			}
		case opWide:
			if !feat.Wide {
				continue
			}
			o.K = 60 + ch(200)
		case opRange:
			if !feat.Range || !feat.Bits {
				continue
			}
			o.K = 3 + ch(10)
			if o.K > q.BitLen()-2 {
				o.K = q.BitLen() - 2
			}
		}
		p.Ops = append(p.Ops, o)
		vals = append(vals, evalOp(o, vals, q))
	}
	// public outputs: the last value and a few others
	nout := 1 + ch(2)
	p.Outs = append(p.Outs, len(vals)-1)
	for i := 1; i < nout; i++ {
		p.Outs = append(p.Outs, ch(len(vals)))
	}
	if feat.WireQuery {
		p.NUnused = 2 + ch(6)
	}
	if feat.Emulated && q.BitLen() > 128 {
		p.Emul = ch(2) == 0
	}
	if feat.Commit {
		nc := ch(3)
		if feat.ChainCommit {
			nc = ch(6)
		}
		for i := 0; i < nc; i++ {
			k := 1 + ch(3)
			var c []int
			chained := feat.ChainCommit && i >= 1 && ch(2) == 0
			for j := 0; j < k; j++ {
				if chained {
					c = append(c, -(1 + ch(i)))
				} else {
					c = append(c, ch(len(vals)))
				}
			}
			if chained && ch(2) == 0 {
				c = append(c, ch(len(vals)))
			}
			p.Commits = append(p.Commits, c)
		}
	}
	return p, in
}

func drawValue(tape *simrt.Tape, q *big.Int) *big.Int {
	switch tape.Choose(simrt.SWorkload, 8) {
	case 0:
		return big.NewInt(0)
	case 1:
		return big.NewInt(1)
	case 2:
		return new(big.Int).Sub(q, big.NewInt(1))
	case 3:
		k := tape.Choose(simrt.SWorkload, q.BitLen()-1)
		v := new(big.Int).Lsh(big.NewInt(1), uint(k))
		if tape.Choose(simrt.SWorkload, 2) == 1 {
			v.Sub(v, big.NewInt(1))
		}
		return v.Mod(v, q)
	case 4, 5:
		v := big.NewInt(int64(tape.Choose(simrt.SWorkload, 1000)))
		return v.Mod(v, q)
	default:
		v := new(big.Int)
		for i := 0; i < (q.BitLen()+31)/32; i++ {
			v.Lsh(v, 32).Or(v, big.NewInt(int64(tape.Raw(simrt.SWorkload))))
		}
		return v.Mod(v, q)
	}
}

// cmpBits is the width of the small values compared by opCmpSmall.
func cmpBits(q *big.Int) int {
	if q.BitLen()-1 < 8 {
		return q.BitLen() - 1
	}
	return 8
}

func lowBits(v *big.Int, k int) *big.Int {
	m := new(big.Int).Lsh(big.NewInt(1), uint(k))
	m.Sub(m, big.NewInt(1))
	return m.And(m, v)
}

func evalOp(o Op, v []*big.Int, q *big.Int) *big.Int {
	r := new(big.Int)
	a, b, c := v[o.A], v[o.B], v[o.C]
	switch o.Kind {
	case opAdd:
		r.Add(a, b)
	case opSub:
		r.Sub(a, b)
	case opMul:
		r.Mul(a, b)
	case opMulConst:
		r.Mul(a, big.NewInt(int64(o.K)))
	case opAddConst:
		r.Add(a, big.NewInt(int64(o.K)))
	case opNeg:
		r.Neg(a)
	case opDiv:
		r.ModInverse(b, q)
		r.Mul(r, a)
	case opInverse:
		r.ModInverse(a, q)
	case opIsZero:
		if a.Sign() == 0 {
			r.SetInt64(1)
		}
	case opSelect:
		if a.Sign() == 0 {
			r.Set(b)
		} else {
			r.Set(c)
		}
	case opLowBits:
		r = lowBits(a, o.K)
	case opBitOp:
		x, y := a.Bit(0), b.Bit(0)
		switch o.K {
		case 0:
			r.SetInt64(int64(x ^ y))
		case 1:
			r.SetInt64(int64(x & y))
		default:
			r.SetInt64(int64(x | y))
		}
	case opLookup:
		bits := 1
		for 1<<bits < o.K {
			bits++
		}
		idx := int(lowBits(a, bits).Int64())
		r.Set(v[o.B+idx])
	case opHintSq:
		r.Mul(a, a)
	case opLazyInv:
		if new(big.Int).Mod(a, q).Sign() != 0 {
			r.ModInverse(a, q)
		}
	case opWide:
		n := len(v)
		for i := 0; i < o.K; i++ {
			t := new(big.Int).Mul(v[(o.A+i)%n], v[(o.B+i*7)%n])
			t.Add(t, big.NewInt(int64(i)))
			t.Mul(t, t).Mod(t, q)
			r.Add(r, t)
		}
	case opMulAcc:
		r.Mul(b, c).Add(r, a)
	case opCmpSmall:
		x, y := lowBits(a, cmpBits(q)), lowBits(b, cmpBits(q))
		r.SetInt64(int64(x.Cmp(y) + 1))
	case opRange:
		r = lowBits(a, o.K)
	case opBoolScaled:
		r.Mul(a, big.NewInt(int64(o.K)))
	}
	return r.Mod(r, q)
}

// GC is the circuit interpreting a Prog.
type GC struct {
	P    []frontend.Variable `gnark:",public"`
	S    []frontend.Variable
	U    []frontend.Variable // inputs no constraint uses (wire-constraint query workload)
	prog *Prog
}

type wireQuerier interface {
	GetWireConstraints(wires []frontend.Variable, addMissing bool) ([][2]int, error)
	GetWiresConstraintExact(wires []frontend.Variable, addMissing bool) ([][2]int, error)
}

// NewGC allocates a circuit (template or assignment) for prog.
func NewGC(p *Prog) *GC {
	return &GC{P: make([]frontend.Variable, p.NPubIn+len(p.Outs)), S: make([]frontend.Variable, p.NIn-p.NPubIn), U: make([]frontend.Variable, p.NUnused), prog: p}
}

func (c *GC) Define(api frontend.API) error {
	p := c.prog
	var v []frontend.Variable
	v = append(v, c.P[:p.NPubIn]...)
	v = append(v, c.S...)
	var bitsOf = map[int][]frontend.Variable{}
	toBits := func(i int) []frontend.Variable {
		if b, ok := bitsOf[i]; ok {
			return b
		}
		b := api.ToBinary(v[i])
		bitsOf[i] = b
		return b
	}
	var rc frontend.Rangechecker
	for _, o := range p.Ops {
		var r frontend.Variable
		switch o.Kind {
		case opAdd:
			r = api.Add(v[o.A], v[o.B])
		case opSub:
			r = api.Sub(v[o.A], v[o.B])
		case opMul:
			r = api.Mul(v[o.A], v[o.B])
		case opMulConst:
			r = api.Mul(v[o.A], o.K)
		case opAddConst:
			r = api.Add(v[o.A], o.K)
		case opNeg:
			r = api.Neg(v[o.A])
		case opDiv:
			r = api.Div(v[o.A], v[o.B])
		case opInverse:
			r = api.Inverse(v[o.A])
		case opIsZero:
			r = api.IsZero(v[o.A])
		case opSelect:
			r = api.Select(api.IsZero(v[o.A]), v[o.B], v[o.C])
		case opLowBits:
			r = api.FromBinary(toBits(o.A)[:o.K]...)
		case opBitOp:
			x, y := toBits(o.A)[0], toBits(o.B)[0]
			switch o.K {
			case 0:
				r = api.Xor(x, y)
			case 1:
				r = api.And(x, y)
			default:
				r = api.Or(x, y)
			}
		case opLookup:
			bits := 1
			for 1<<bits < o.K {
				bits++
			}
			t := logderivlookup.New(api)
			for i := 0; i < o.K; i++ {
				t.Insert(v[o.B+i])
			}
			idx := api.FromBinary(toBits(o.A)[:bits]...)
			r = t.Lookup(idx)[0]
		case opHintSq:
			h, err := api.NewHint(squareHint, 1, v[o.A])
			if err != nil {
				return err
			}
			api.AssertIsEqual(h[0], api.Mul(v[o.A], v[o.A]))
			r = h[0]
		case opLazyInv:
			h, err := api.NewHint(lazyInvHint, 1, v[o.A])
			if err != nil {
				return err
			}
			// a*(a*h - 1) == 0 and h*(a*h - 1) == 0: h is 1/a, or 0 when a is 0
			t := api.Sub(api.Mul(v[o.A], h[0]), 1)
			api.AssertIsEqual(api.Mul(v[o.A], t), 0)
			api.AssertIsEqual(api.Mul(h[0], t), 0)
			r = h[0]
		case opWide:
			n := len(v)
			var acc frontend.Variable = 0
			terms := make([]frontend.Variable, o.K)
			for i := 0; i < o.K; i++ {
				t := api.Add(api.Mul(v[(o.A+i)%n], v[(o.B+i*7)%n]), i)
				terms[i] = api.Mul(t, t)
			}
			for i := range terms {
				acc = api.Add(acc, terms[i])
			}
			r = acc
		case opMulAcc:
			// MulAcc may modify its first argument in place; use a fresh sum
			r = api.MulAcc(api.Add(v[o.A], 0), v[o.B], v[o.C])
		case opCmpSmall:
			cb := cmpBits(api.Compiler().Field())
			x := api.FromBinary(toBits(o.A)[:cb]...)
			y := api.FromBinary(toBits(o.B)[:cb]...)
			r = api.Add(api.Cmp(x, y), 1)
		case opBoolScaled:
			r = api.Mul(v[o.A], o.K)
			api.AssertIsBoolean(r)
		case opRange:
			if rc == nil {
				rc = rangecheck.New(api)
			}
			x := api.FromBinary(toBits(o.A)[:o.K]...)
			rc.Check(x, o.K)
			r = x
		}
		v = append(v, r)
	}
	for i, idx := range p.Outs {
		api.AssertIsEqual(c.P[p.NPubIn+i], v[idx])
	}
	if p.Emul {
		f, err := emulated.NewField[emulated.Secp256k1Fp](api)
		if err != nil {
			return err
		}
		a := f.FromBits(toBits(0)[:64]...)
		b := f.FromBits(toBits(len(v) - 1)[:64]...)
		f.AssertIsEqual(f.Mul(a, b), f.Mul(b, a))
	}
	if p.NUnused > 0 {
		wq, ok := api.Compiler().(wireQuerier)
		if !ok {
			return fmt.Errorf("builder has no wire-constraint query interface")
		}
		h := p.NUnused / 2
		// first half plus two wires that already appear in constraints
		q1 := append([]frontend.Variable{}, c.U[:h]...)
		if len(c.S) > 0 {
			q1 = append(q1, c.S[0])
		}
		pos, err := wq.GetWireConstraints(q1, true)
		if err != nil {
			return err
		}
		if len(pos) != len(q1) {
			return fmt.Errorf("GetWireConstraints returned %d positions for %d wires", len(pos), len(q1))
		}
		pos2, err := wq.GetWiresConstraintExact(c.U[h:], true)
		if err != nil {
			return err
		}
		if len(pos2) != len(c.U[h:]) {
			return fmt.Errorf("GetWiresConstraintExact returned %d positions for %d wires", len(pos2), len(c.U[h:]))
		}
	}
	if len(p.Commits) > 0 {
		cm, ok := api.(frontend.Committer)
		if !ok {
			return fmt.Errorf("builder does not implement Committer")
		}
		outs := make([]frontend.Variable, len(p.Commits))
		for ci, cs := range p.Commits {
			var args []frontend.Variable
			seen := map[int]bool{}
			for _, i := range cs {
				if i < 0 {
					// the output of an earlier commitment (each at most once)
					if k := -i - 1; k < ci && outs[k] != nil && !seen[i] {
						seen[i] = true
						args = append(args, outs[k])
					}
					continue
				}
				// constants cannot be committed to
				if _, isConst := api.Compiler().ConstantValue(v[i]); !isConst {
					args = append(args, v[i])
				}
			}
			if len(args) == 0 {
				continue
			}
			x, err := cm.Commit(args...)
			if err != nil {
				return err
			}
			outs[ci] = x
			// use the commitment so that it is constrained: x * x == x*x via a product
			api.AssertIsEqual(api.Mul(x, args[0]), api.Mul(args[0], x))
		}
	}
	return nil
}

// Eval computes all values of the program on inputs in.
func (p *Prog) Eval(in []*big.Int, q *big.Int) []*big.Int {
	v := append([]*big.Int(nil), in...)
	for _, o := range p.Ops {
		v = append(v, evalOp(o, v, q))
	}
	return v
}

// Assign builds a full assignment: inputs in, public outputs as computed by Eval. If breakOut
// >= 0 that public output is shifted by one (the assignment no longer satisfies the circuit).
func (p *Prog) Assign(in []*big.Int, q *big.Int, breakOut int) *GC {
	v := p.Eval(in, q)
	a := NewGC(p)
	for i := 0; i < p.NPubIn; i++ {
		a.P[i] = new(big.Int).Set(in[i])
	}
	for i := p.NPubIn; i < p.NIn; i++ {
		a.S[i-p.NPubIn] = new(big.Int).Set(in[i])
	}
	for i := range a.U {
		a.U[i] = big.NewInt(int64(7 + i))
	}
	for i, idx := range p.Outs {
		x := new(big.Int).Set(v[idx])
		if i == breakOut {
			x.Add(x, big.NewInt(1)).Mod(x, q)
		}
		a.P[p.NPubIn+i] = x
	}
	return a
}

// divisionsDefined says whether the program can be evaluated at all on these inputs.
func (p *Prog) divisionsDefined(in []*big.Int, q *big.Int) bool {
	v := append([]*big.Int(nil), in...)
	for _, o := range p.Ops {
		if o.Kind == opDiv && v[o.B].Sign() == 0 {
			return false
		}
		if o.Kind == opInverse && v[o.A].Sign() == 0 {
			return false
		}
		v = append(v, evalOp(o, v, q))
	}
	return true
}

// ValidInputs perturbs inputs into another input vector for which the program is still
// well-defined (no division by zero): returns nil if the perturbed vector is not valid.
func (p *Prog) ValidInputs(in []*big.Int, q *big.Int) bool {
	v := append([]*big.Int(nil), in...)
	for _, o := range p.Ops {
		if o.Kind == opDiv && v[o.B].Sign() == 0 {
			return false
		}
		if o.Kind == opInverse && v[o.A].Sign() == 0 {
			return false
		}
		if o.Kind == opBoolScaled {
			if b := evalOp(o, v, q); b.Sign() != 0 && b.Cmp(big.NewInt(1)) != 0 {
				return false
			}
		}
		v = append(v, evalOp(o, v, q))
	}
	return true
}
