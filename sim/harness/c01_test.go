package harness

import (
	"bytes"
	"fmt"
	"math/big"
	"reflect"
	"strings"

	"github.com/consensys/gnark-crypto/ecc"
	"github.com/consensys/gnark/backend/groth16"
	"github.com/consensys/gnark/backend/plonk"
	"github.com/consensys/gnark/backend/witness"
	"github.com/consensys/gnark/constraint/verifhook"
	"github.com/consensys/gnark/frontend"
	"github.com/consensys/gnark/test/unsafekzg"
	"verifsim/simrt"
)

// C01 / C02: a verifier holding one verifying key receives, over a faulty wire, proofs and
// public witnesses of honest sessions. Faults: replay of a proof against another session's
// public input, delivery of a proof made under other keys, substitution of every proof
// element (zero / negation / multiple / sum / element of the same or of another proof),
// commitment-list edits including the crafted point that would cancel a public-input change,
// public-witness edits, byte flips on the encoding, and the prover-memory fault (the real
// prover run on an assignment that violates a chosen constraint, through the post-solve hook).
// Oracle: the session ledger - Verify may return nil only for a (proof, public witness) pair
// that an honest session produced for this key, or one that differs from it by a semantic
// no-op; everything else must be rejected; honest pairs must be accepted.

var c01Feat = GenFeat{Commit: true, ChainCommit: true, Lookup: true, Range: false, Hint: true, Wide: false, Bits: true, ScaledBool: true, MaxOps: 7, MinOps: 1}

type session struct {
	wi     int
	proof  any
	leaves [][]byte
	pub    witness.Witness
	pubB   []byte
}

type soundFx struct {
	fx       *Fixture
	sessions []*session
	pk2, vk2 any // independent setup of the same circuit
	proof2   any // proof of session 0's witness under pk2
	view     *csView
}

var soundCache = map[*Fixture]*soundFx{}

func proveAny(fx *Fixture, pk any, full witness.Witness) (any, error) {
	if fx.Backend == beGroth16 {
		return groth16.Prove(fx.CCS, pk.(groth16.ProvingKey), full)
	}
	return plonk.Prove(fx.CCS, pk.(plonk.ProvingKey), full)
}

func leafBytes(x any) [][]byte {
	var out [][]byte
	for _, l := range leavesOf(x) {
		out = append(out, l.bytes())
	}
	return out
}

func (w *Worker) soundFixture(fx *Fixture) (*soundFx, error) {
	if s, ok := soundCache[fx]; ok {
		return s, nil
	}
	w.SetEntropy(simrt.Mix(w.Seed^0xc01, hash64(fmt.Sprintf("%d/%s/%s", fx.Backend, fx.Curve, fx.Prog))), simrt.EntKeyed, 0)
	s := &soundFx{fx: fx}
	for i, wt := range fx.Wits {
		if !wt.Valid {
			continue
		}
		p, err := proveAny(fx, fx.PK, wt.Full)
		if err != nil {
			return nil, err
		}
		s.sessions = append(s.sessions, &session{wi: i, proof: p, leaves: leafBytes(p), pub: wt.Pub, pubB: witnessBytes(wt.Pub)})
	}
	var err error
	if fx.Backend == beGroth16 {
		s.pk2, s.vk2, err = groth16.Setup(fx.CCS)
	} else {
		srs, srsL, e := unsafekzg.NewSRS(fx.CCS, unsafekzg.WithToxicSeed([]byte("verif-second-srs")))
		if e != nil {
			return nil, e
		}
		s.pk2, s.vk2, err = plonk.Setup(fx.CCS, srs, srsL)
	}
	if err != nil {
		return nil, err
	}
	if s.proof2, err = proveAny(fx, s.pk2, fx.Wits[s.sessions[0].wi].Full); err != nil {
		return nil, err
	}
	if fx.Backend == beGroth16 {
		s.view = viewOf(fx.CCS, true)
	} else {
		s.view = viewOf(fx.CCS, false)
	}
	soundCache[fx] = s
	return s, nil
}

// reflection helpers on curve-specific element types -------------------------------------

func rcall(v reflect.Value, name string, args ...reflect.Value) []reflect.Value {
	return v.Addr().MethodByName(name).Call(args)
}

func elemToBig(v reflect.Value) *big.Int {
	r := new(big.Int)
	rcall(v, "BigInt", reflect.ValueOf(r))
	return r
}

func elemFromBig(v reflect.Value, x *big.Int) { rcall(v, "SetBigInt", reflect.ValueOf(x)) }

func isFieldElem(v reflect.Value) bool { return v.Addr().MethodByName("SetBigInt").IsValid() }

// perturbLeaf replaces a leaf by another valid value of its type. other is a leaf of the same
// type taken from somewhere else (may be invalid Value). Returns a description.
func perturbLeaf(tape *simrt.Tape, l reflect.Value, other reflect.Value, q *big.Int) string {
	if isFieldElem(l) {
		x := elemToBig(l)
		switch tape.Choose(simrt.SFault, 5) {
		case 0:
			x.Add(x, big.NewInt(1))
			elemFromBig(l, x.Mod(x, q))
			return "+1"
		case 1:
			x.Sub(x, big.NewInt(1))
			elemFromBig(l, x.Mod(x, q))
			return "-1"
		case 2:
			elemFromBig(l, new(big.Int))
			return "zero"
		case 3:
			x.Neg(x)
			elemFromBig(l, x.Mod(x, q))
			return "negated"
		default:
			if other.IsValid() {
				l.Set(other)
				return "replaced by another scalar of the proof"
			}
			elemFromBig(l, big.NewInt(1))
			return "one"
		}
	}
	switch tape.Choose(simrt.SFault, 7) {
	case 6:
		// a point of the curve outside the prime-order subgroup: the element plus a point of
		// cofactor order (pairings do not see the difference; only a subgroup check does)
		if t, ok := cofactorPoint(l, q); ok {
			rcall(l, "Add", l.Addr(), t.Addr())
			return "moved out of the subgroup by a point of cofactor order"
		}
		rcall(l, "Double", l.Addr())
		return "doubled"
	case 0:
		l.Set(reflect.Zero(l.Type()))
		return "infinity"
	case 1:
		rcall(l, "Neg", l.Addr())
		return "negated"
	case 2:
		k := big.NewInt(int64(2 + tape.Choose(simrt.SFault, 1000)))
		rcall(l, "ScalarMultiplication", l.Addr(), reflect.ValueOf(k))
		return fmt.Sprintf("multiplied by %s", k)
	case 3:
		if other.IsValid() {
			rcall(l, "Add", l.Addr(), other.Addr())
			return "added another element"
		}
		rcall(l, "Double", l.Addr())
		return "doubled"
	default:
		if other.IsValid() {
			l.Set(other)
			return "replaced by another element"
		}
		rcall(l, "Double", l.Addr())
		return "doubled"
	}
}

// cofactorPoint returns a non-zero point of cofactor order on the curve of the G1 leaf l (a
// non-zero subgroup point), found without curve-specific code: b = y^2 - x^3 from l itself,
// a curve point R with a small abscissa, then [r]R for the subgroup order r.
func cofactorPoint(l reflect.Value, r *big.Int) (reflect.Value, bool) {
	X, Y := l.FieldByName("X"), l.FieldByName("Y")
	if !X.IsValid() || !Y.IsValid() || !X.CanAddr() || !X.Addr().MethodByName("Sqrt").IsValid() || !X.Addr().MethodByName("SetUint64").IsValid() {
		return reflect.Value{}, false // G2 (extension-field coordinates) or not a point
	}
	if m := l.Addr().MethodByName("IsInfinity"); !m.IsValid() || m.Call(nil)[0].Bool() {
		return reflect.Value{}, false
	}
	el := func() reflect.Value { return reflect.New(X.Type()).Elem() }
	b, x3 := el(), el()
	rcall(b, "Square", Y.Addr())
	rcall(x3, "Square", X.Addr())
	rcall(x3, "Mul", x3.Addr(), X.Addr())
	rcall(b, "Sub", b.Addr(), x3.Addr())
	for k := uint64(1); k < 200; k++ {
		x, rhs, y := el(), el(), el()
		rcall(x, "SetUint64", reflect.ValueOf(k))
		rcall(rhs, "Square", x.Addr())
		rcall(rhs, "Mul", rhs.Addr(), x.Addr())
		rcall(rhs, "Add", rhs.Addr(), b.Addr())
		if res := rcall(y, "Sqrt", rhs.Addr()); res[0].IsNil() {
			continue
		}
		R := reflect.New(l.Type()).Elem()
		R.FieldByName("X").Set(x)
		R.FieldByName("Y").Set(y)
		if !R.Addr().MethodByName("IsOnCurve").Call(nil)[0].Bool() {
			continue
		}
		rcall(R, "ScalarMultiplication", R.Addr(), reflect.ValueOf(r))
		if !R.Addr().MethodByName("IsInfinity").Call(nil)[0].Bool() {
			return R, true
		}
	}
	return reflect.Value{}, false
}

// sameTypeLeaf picks a leaf of type t (other than index skip) from x.
func sameTypeLeaf(tape *simrt.Tape, x any, t reflect.Type, skip int) reflect.Value {
	var c []reflect.Value
	for i, l := range leavesOf(x) {
		if l.V.Type() == t && i != skip {
			c = append(c, l.V)
		}
	}
	if len(c) == 0 {
		return reflect.Value{}
	}
	return c[tape.Choose(simrt.SFault, len(c))]
}

// pubVector returns the public witness as big integers.
func pubVector(w witness.Witness) []*big.Int {
	v := reflect.ValueOf(w.Vector())
	out := make([]*big.Int, v.Len())
	for i := range out {
		e := reflect.New(v.Type().Elem()).Elem()
		e.Set(v.Index(i))
		out[i] = elemToBig(e)
	}
	return out
}

func pubFromVector(curve ecc.ID, vals []*big.Int) (witness.Witness, error) {
	w, err := witness.New(curve.ScalarField())
	if err != nil {
		return nil, err
	}
	ch := make(chan any, len(vals))
	for _, v := range vals {
		ch <- v
	}
	close(ch)
	if err := w.Fill(len(vals), 0, ch); err != nil {
		return nil, err
	}
	return w, nil
}

// statementHolds says whether the program accepts public values pubv together with the
// secret inputs of pool witness wi (the legitimacy test for an accepted, altered statement).
func statementHolds(fx *Fixture, wi int, pubv []*big.Int) bool {
	p := fx.Prog
	q := fx.Curve.ScalarField()
	if len(pubv) != p.NPubIn+len(p.Outs) {
		return false
	}
	in := make([]*big.Int, p.NIn)
	for i := range in {
		if i < p.NPubIn {
			in[i] = pubv[i]
		} else {
			in[i] = fx.Wits[wi].In[i]
		}
	}
	if !p.ValidInputs(in, q) {
		return false
	}
	v := p.Eval(in, q)
	for i, idx := range p.Outs {
		if v[idx].Cmp(pubv[p.NPubIn+i]) != 0 {
			return false
		}
	}
	return true
}

func soundRun(be int) func(w *Worker, tape *simrt.Tape) *Outcome {
	return func(w *Worker, tape *simrt.Tape) *Outcome {
		o := &Outcome{}
		ch := func(n int) int { return tape.Choose(simrt.SWorkload, n) }
		curves := w.curves()
		curve := curves[0]
		if ch(3) == 0 {
			curve = curves[ch(len(curves))]
		}
		slot := ch(w.paramInt("slots", 24))
		fx, err := w.fixture(be, curve, slot, c01Feat, true)
		if err != nil {
			o.probe("fixture_skipped")
			o.Desc = "skipped: " + err.Error()
			return o
		}
		sf, err := w.soundFixture(fx)
		if err != nil {
			o.violate("prove-failed", "prove-failed:"+beNames[be], "honest sessions cannot be set up: "+err.Error()+"\nprog: "+fx.Prog.String())
			return o
		}
		where := beNames[be]
		q := curve.ScalarField()
		nfaults := w.paramInt("faults", 40)
		o.NonTrivial = true
		o.Desc = fmt.Sprintf("%s/%s/slot%d[%s] sessions=%d", where, curve, slot, fx.Prog.Kinds(), len(sf.sessions))
		if fx.hasCommitment() {
			o.probe("circuit_with_commitment")
		}
		if be == beGroth16 {
			// key-relation invariant of Setup: every commitment has its own proof-of-knowledge
			// trapdoor. With a shared trapdoor a knowledge proof for one commitment's basis transfers
			// to another's, so a commitment (hence its challenge) no longer binds its committed wires.
			if cks := reflect.Indirect(reflect.ValueOf(fx.VK)).FieldByName("CommitmentKeys"); cks.IsValid() && cks.Kind() == reflect.Slice {
				seen := map[string]int{}
				for i := 0; i < cks.Len(); i++ {
					g := cks.Index(i).FieldByName("GSigmaNeg")
					if !g.IsValid() {
						continue
					}
					k := fmt.Sprint(g.Interface())
					if j, dup := seen[k]; dup {
						o.violate("setup-keys-dependent", "setup-keys-dependent:groth16:commitment-trapdoor", fmt.Sprintf("commitment keys %d and %d of the verifying key share one proof-of-knowledge trapdoor (equal GSigmaNeg): a knowledge proof for one commitment's basis is valid for the other's\ncase: %s\nprog: %s", j, i, o.Desc, fx.Prog.String()))
						return o
					}
					seen[k] = i
				}
				if cks.Len() >= 2 {
					o.probe("commitment_trapdoors_compared")
				}
			}
		}
		// judge applies the ledger: legit says whether acceptance is permitted
		judge := func(proof any, pw witness.Witness, legit bool, mustAccept bool, fdesc string) bool {
			o.Evals++
			err, pan := verifyAny(be, proof, fx.VK, pw)
			if pan != "" {
				o.violate("verify-panic", "verify-panic:"+where+":"+panicSite(pan), "Verify panicked: "+pan+"\nfault: "+fdesc)
				o.Viol.Faults = []string{fdesc}
				return true
			}
			if err == nil {
				o.probe("accepted")
				if !legit {
					key := "forgery-accepted:" + where + ":" + strings.SplitN(fdesc, " ", 2)[0]
					if fx.hasCommitment() {
						key += ":vk-with-commitments"
					} else {
						key += ":vk-without-commitments"
					}
					if o.violateOrKnown(w, "forgery-accepted", key, "Verify accepted a pair that no honest session produced\nfault: "+fdesc+"\ncase: "+o.Desc+"\nprog: "+fx.Prog.String()) {
						o.Viol.Faults = []string{fdesc}
						return true
					}
				}
			} else {
				o.probe("rejected")
				if mustAccept {
					o.violate("honest-rejected", "honest-rejected:"+where, "Verify rejected an honest pair: "+err.Error()+"\n"+fdesc+"\ncase: "+o.Desc+"\nprog: "+fx.Prog.String())
					return true
				}
			}
			return false
		}
		for f := 0; f < nfaults; f++ {
			s := sf.sessions[tape.Choose(simrt.SFault, len(sf.sessions))]
			kind := tape.Choose(simrt.SFault, 10)
			switch kind {
			case 0: // fault-free delivery (completeness in the same run)
				o.fault("none")
				if judge(s.proof, s.pub, true, true, "none: honest delivery") {
					return o
				}
			case 1: // replay against another session's public input
				t := sf.sessions[tape.Choose(simrt.SFault, len(sf.sessions))]
				legit := bytes.Equal(s.pubB, t.pubB) || statementHolds(fx, s.wi, pubVector(t.pub))
				o.fault("replay_other_session")
				if judge(s.proof, t.pub, legit, bytes.Equal(s.pubB, t.pubB), fmt.Sprintf("replay: proof of session w%d against the public input of session w%d", s.wi, t.wi)) {
					return o
				}
			case 2: // proof made under independent keys of the same circuit
				o.fault("other_keys")
				if judge(sf.proof2, sf.sessions[0].pub, false, false, "otherkeys: proof made with an independent setup of the same circuit") {
					return o
				}
			case 3, 4, 5: // element substitution
				cp, err := cloneProof(be, curve, s.proof)
				if err != nil {
					o.violate("clone-failed", "clone-failed:"+where, err.Error())
					return o
				}
				ls := leavesOf(cp)
				if len(ls) == 0 {
					continue
				}
				li := tape.Choose(simrt.SFault, len(ls))
				var other reflect.Value
				src := "same proof"
				if tape.Choose(simrt.SFault, 2) == 0 {
					other = sameTypeLeaf(tape, cp, ls[li].V.Type(), li)
				} else {
					t := sf.sessions[tape.Choose(simrt.SFault, len(sf.sessions))]
					other = sameTypeLeaf(tape, t.proof, ls[li].V.Type(), -1)
					src = fmt.Sprintf("session w%d", t.wi)
				}
				how := perturbLeaf(tape, ls[li].V, other, q)
				legit := bytes.Equal(ls[li].bytes(), s.leaves[li])
				o.fault("element_substitution")
				if legit {
					o.probe("substitution_was_noop")
				}
				if judge(cp, s.pub, legit, false, fmt.Sprintf("element:%s %s (%s)", stripIndex(ls[li].Path), how, src)) {
					return o
				}
			case 6: // commitment / claimed-value list edits
				cp, err := cloneProof(be, curve, s.proof)
				if err != nil {
					o.violate("clone-failed", "clone-failed:"+where, err.Error())
					return o
				}
				var paths []string
				sliceFields(reflect.ValueOf(cp), "", &paths)
				if len(paths) == 0 {
					continue
				}
				path := paths[tape.Choose(simrt.SFault, len(paths))]
				fv := fieldByPath(reflect.ValueOf(cp), path)
				n := fv.Len()
				var how string
				switch tape.Choose(simrt.SFault, 5) {
				case 0:
					if n == 0 {
						continue
					}
					fv.Set(fv.Slice(0, n-1))
					how = "shortened"
				case 1:
					ext := reflect.MakeSlice(fv.Type(), n+1, n+1)
					reflect.Copy(ext, fv)
					if n > 0 {
						ext.Index(n).Set(fv.Index(n - 1))
					}
					fv.Set(ext)
					how = "extended by a duplicate / zero element"
				case 2:
					if n < 2 {
						continue
					}
					i, j := tape.Choose(simrt.SFault, n), tape.Choose(simrt.SFault, n)
					if i == j {
						j = (i + 1) % n
					}
					tmp := reflect.New(fv.Type().Elem()).Elem()
					tmp.Set(fv.Index(i))
					fv.Index(i).Set(fv.Index(j))
					fv.Index(j).Set(tmp)
					how = fmt.Sprintf("elements %d and %d swapped", i, j)
				case 3:
					ext := reflect.MakeSlice(fv.Type(), n+1, n+1)
					reflect.Copy(ext, fv)
					o := sameTypeLeaf(tape, s.proof, fv.Type().Elem(), -1)
					if o.IsValid() {
						ext.Index(n).Set(o)
					}
					fv.Set(ext)
					how = "extended by another element of the proof"
				default:
					fv.Set(reflect.MakeSlice(fv.Type(), 0, 0))
					how = "emptied"
				}
				legit := reflect.DeepEqual(leafBytes(cp), s.leaves)
				o.fault("list_edit")
				if judge(cp, s.pub, legit, false, fmt.Sprintf("list:%s %s (%d -> %d)", path, how, n, fv.Len())) {
					return o
				}
			case 7: // public witness edits, incl. the crafted surplus commitment for Groth16
				pv := pubVector(s.pub)
				if len(pv) == 0 {
					continue
				}
				i := tape.Choose(simrt.SFault, len(pv))
				orig := new(big.Int).Set(pv[i])
				var how string
				switch tape.Choose(simrt.SFault, 4) {
				case 0:
					pv[i] = new(big.Int).Add(pv[i], big.NewInt(1))
					pv[i].Mod(pv[i], q)
					how = fmt.Sprintf("element %d +1", i)
				case 1:
					pv[i] = new(big.Int).Sub(pv[i], big.NewInt(1))
					pv[i].Mod(pv[i], q)
					how = fmt.Sprintf("element %d -1", i)
				case 2:
					j := tape.Choose(simrt.SFault, len(pv))
					pv[i], pv[j] = pv[j], pv[i]
					how = fmt.Sprintf("elements %d and %d swapped", i, j)
				default:
					pv[i] = drawValue(tape, q)
					how = fmt.Sprintf("element %d replaced", i)
				}
				pw, err := pubFromVector(curve, pv)
				if err != nil {
					continue
				}
				same := bytes.Equal(witnessBytes(pw), s.pubB)
				legit := same || statementHolds(fx, s.wi, pv)
				o.fault("public_input_edit")
				if legit && !same {
					o.probe("altered_statement_still_true")
				}
				if judge(s.proof, pw, legit, same, "pubinput:"+how) {
					return o
				}
				// the same altered statement, with a surplus commitment crafted to cancel the change
				if be == beGroth16 && !same && pv[i].Cmp(orig) != 0 {
					if cp := craftSurplus(be, curve, s, fx.VK, pubVector(s.pub), pv); cp != nil {
						o.fault("crafted_surplus_commitment")
						if judge(cp, pw, legit, false, "crafted: public "+how+" + surplus commitment sum (x'-x)K cancelling it") {
							return o
						}
					}
				}
			case 8: // byte flips on the encoding
				raw := tape.Choose(simrt.SFault, 2) == 1
				wr, err := encode(s.proof, raw)
				if err != nil {
					continue
				}
				data := append([]byte(nil), wr.Buf...)
				// flip inside an encoded group / field element (records whose size is a multiple of
				// 16 bytes); length prefixes are C08's subject (allocation bombs)
				var recs []simrt.WriteRec
				for _, r := range wr.Log {
					if r.Len >= 32 && r.Len%16 == 0 {
						recs = append(recs, r)
					}
				}
				if len(recs) == 0 {
					continue
				}
				rec := recs[tape.Choose(simrt.SFault, len(recs))]
				k := rec.Off + tape.Choose(simrt.SFault, rec.Len)
				bit := tape.Choose(simrt.SFault, 8)
				if k == rec.Off && bit >= 5 {
					// the top bits of an element's first byte are encoding metadata (compressed /
					// uncompressed / infinity): flipping them makes the decoder read a different
					// number of bytes, point data is then taken for the next length prefix and the
					// decoder allocates from it - the allocation bomb recorded under C08, where such
					// inputs run in a batch of their own
					bit -= 5
				}
				data[k] ^= byte(1 << bit)
				p, _, err, pan := decodeProof(be, curve, bytes.NewReader(data))
				o.fault("byte_flip")
				if pan != "" {
					o.violate("decode-panic", "decode-panic:"+where+":"+panicSite(pan), pan)
					return o
				}
				if err != nil {
					o.probe("flip_undecodable")
					continue
				}
				legit := reflect.DeepEqual(leafBytes(p), s.leaves)
				if judge(p, s.pub, legit, false, fmt.Sprintf("byteflip:offset %d raw=%v", k, raw)) {
					return o
				}
			case 9: // prover memory fault: the real prover runs on a non-satisfying assignment
				if !verifhook.Enabled {
					continue
				}
				wt := fx.Wits[s.wi]
				violated, desc := false, ""
				verifhook.PostSolve = func(cs any, sol any) {
					violated, desc = corruptSolution(tape, sf.view, sol, be)
				}
				proof, err := proveAny(fx, fx.PK, wt.Full)
				verifhook.PostSolve = nil
				if err != nil {
					o.probe("prover_refused_corrupted_assignment")
					continue
				}
				o.fault("prover_memory_fault")
				if !violated {
					o.probe("memory_fault_kept_assignment_satisfying")
				}
				if judge(proof, wt.Pub, !violated, false, "memory:"+desc) {
					return o
				}
			}
		}
		o.Desc += fmt.Sprintf(" tape=%x", simrt.TapeHash(tape.Recorded()))
		if o.Sample == nil {
			o.Sample = map[string]any{"case": o.Desc, "faults": nfaults, "proof_elements": len(sf.sessions[0].leaves)}
		}
		return o
	}
}

// craftSurplus builds, for Groth16, a copy of the session's proof with one extra commitment
// C = sum_i (x_i - x'_i) K_{i+1}, which makes kSum(x') + C equal kSum(x).
func craftSurplus(be int, curve ecc.ID, s *session, vk any, x, xp []*big.Int) any {
	cp, err := cloneProof(be, curve, s.proof)
	if err != nil {
		return nil
	}
	kv := fieldByPath(reflect.ValueOf(vk), "G1.K")
	if !kv.IsValid() || kv.Len() < len(x)+1 {
		return nil
	}
	q := curve.ScalarField()
	acc := reflect.New(kv.Type().Elem()).Elem() // infinity
	tmp := reflect.New(kv.Type().Elem()).Elem()
	for i := range x {
		d := new(big.Int).Sub(x[i], xp[i])
		d.Mod(d, q)
		if d.Sign() == 0 {
			continue
		}
		k := reflect.New(kv.Type().Elem()).Elem()
		k.Set(kv.Index(i + 1))
		rcall(tmp, "ScalarMultiplication", k.Addr(), reflect.ValueOf(d))
		rcall(acc, "Add", acc.Addr(), tmp.Addr())
	}
	fv := fieldByPath(reflect.ValueOf(cp), "Commitments")
	n := fv.Len()
	ext := reflect.MakeSlice(fv.Type(), n+1, n+1)
	reflect.Copy(ext, fv)
	ext.Index(n).Set(acc)
	fv.Set(ext)
	return cp
}

// corruptSolution overwrites one entry of the solved vectors so that (if possible) a chosen
// constraint is violated. It reports whether the assignment violates any constraint afterwards.
func corruptSolution(tape *simrt.Tape, view *csView, sol any, be int) (bool, string) {
	sv := reflect.ValueOf(sol).Elem()
	get := func(name string) reflect.Value { return sv.FieldByName(name) }
	q := view.q
	vec := func(v reflect.Value) []*big.Int {
		out := make([]*big.Int, v.Len())
		for i := range out {
			out[i] = elemToBig(v.Index(i))
		}
		return out
	}
	if be == beGroth16 {
		W, A, B, C := get("W"), get("A"), get("B"), get("C")
		n := W.Len()
		if n < 2 {
			return false, "no wire to corrupt"
		}
		// never the ONE wire, never a public wire: the statement stays the same
		lo := view.nbPub
		if lo >= n {
			return false, "no private wire"
		}
		k := lo + tape.Choose(simrt.SFault, n-lo)
		w := vec(W)
		w[k] = new(big.Int).Add(w[k], big.NewInt(int64(1+tape.Choose(simrt.SFault, 5))))
		w[k].Mod(w[k], q)
		elemFromBig(W.Index(k), w[k])
		violated := false
		t := new(big.Int)
		for i, r := range view.r1cs {
			l, _ := view.evalLE(r.L, w)
			rr, _ := view.evalLE(r.R, w)
			oo, _ := view.evalLE(r.O, w)
			elemFromBig(A.Index(i), l)
			elemFromBig(B.Index(i), rr)
			elemFromBig(C.Index(i), oo)
			if t.Mul(l, rr).Mod(t, q).Cmp(oo) != 0 {
				violated = true
			}
		}
		return violated, fmt.Sprintf("wire %d of %d overwritten, A,B,C recomputed", k, n)
	}
	L, R, O := get("L"), get("R"), get("O")
	rows := view.nbPub + len(view.sparse)
	if rows == 0 {
		return false, "empty trace"
	}
	col := tape.Choose(simrt.SFault, 3)
	row := tape.Choose(simrt.SFault, rows)
	target := []reflect.Value{L, R, O}[col]
	x := elemToBig(target.Index(row))
	x.Add(x, big.NewInt(int64(1+tape.Choose(simrt.SFault, 5)))).Mod(x, q)
	elemFromBig(target.Index(row), x)
	// does the trace still satisfy every gate and every copy constraint?
	l, r, o := vec(L), vec(R), vec(O)
	violated := false
	wires := map[uint32]*big.Int{}
	chk := func(id uint32, v *big.Int) {
		if old, ok := wires[id]; ok {
			if old.Cmp(v) != 0 {
				violated = true
			}
			return
		}
		wires[id] = v
	}
	for i := 0; i < view.nbPub; i++ {
		chk(uint32(i), l[i])
		// R and O of placeholder rows carry wire 0
		chk(0, r[i])
		chk(0, o[i])
	}
	t, acc := new(big.Int), new(big.Int)
	for i, c := range view.sparse {
		rw := view.nbPub + i
		chk(c.XA, l[rw])
		chk(c.XB, r[rw])
		chk(c.XC, o[rw])
		if c.Commitment != 0 {
			continue
		}
		acc.Mul(view.coeffs[c.QL], l[rw])
		acc.Add(acc, t.Mul(view.coeffs[c.QR], r[rw]))
		acc.Add(acc, t.Mul(view.coeffs[c.QO], o[rw]))
		acc.Add(acc, t.Mul(t.Mul(view.coeffs[c.QM], l[rw]), r[rw]))
		acc.Add(acc, view.coeffs[c.QC])
		if acc.Mod(acc, q).Sign() != 0 {
			violated = true
		}
	}
	return violated, fmt.Sprintf("cell %s[%d] of %d rows overwritten", []string{"L", "R", "O"}[col], row, rows)
}

func init() {
	register(&Engine{Name: "c01", Prop: "C01", Run: soundRun(beGroth16)})
	register(&Engine{Name: "c02", Prop: "C02", Run: soundRun(bePlonk)})
}

var _ = frontend.Variable(nil)
