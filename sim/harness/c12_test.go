package harness

import (
	"fmt"
	"math/big"
	"sort"
	"strings"

	"github.com/consensys/gnark/constraint/solver"
	"github.com/consensys/gnark/frontend"
	"github.com/consensys/gnark/std/math/emulated"
	"verifsim/simrt"
)

// C12: chains of emulated field operations under the hint nemesis (quotient, remainder,
// carry, inverse, square-root and padding answers): a satisfied circuit shows a result whose
// canonical representative is congruent to the math/big result of the chain.

type emuCircuit[T emulated.FieldParams] struct {
	A, B, C emulated.Element[T]
	chain   string
}

func (c *emuCircuit[T]) Define(api frontend.API) error {
	f, err := emulated.NewField[T](api)
	if err != nil {
		return err
	}
	a, b, cc := &c.A, &c.B, &c.C
	out := func(x *emulated.Element[T]) {
		r := f.ReduceStrict(x)
		probe(api, 1, r.Limbs...)
	}
	switch c.chain {
	case "mul":
		out(f.Mul(a, b))
	case "muladdsub":
		x := f.Add(f.Mul(a, b), cc)
		x = f.Mul(x, a)
		out(f.Sub(x, b))
	case "div":
		out(f.Div(a, b))
	case "inverse":
		out(f.Inverse(a))
	case "sqrt":
		// either root is a legitimate answer: use the one the circuit was given, once
		s := f.Sqrt(a)
		out(f.Mul(s, s))
	case "constp", "constpm1", "const1":
		// constants the library builds itself: the modulus p (deliberately kept unreduced by
		// NewElement / Modulus()), p-1, and a short one; canonical bits, strict reduction and the
		// in-range assertion must treat them by their canonical representative
		var fp T
		k := new(big.Int).Set(fp.Modulus())
		switch c.chain {
		case "constpm1":
			k.Sub(k, big.NewInt(1))
		case "const1":
			k.SetInt64(1)
		}
		bits := f.ToBitsCanonical(f.NewElement(k))
		probe(api, 2, bits...)
		if c.chain != "constp" {
			f.AssertIsInRange(f.NewElement(k))
		}
		out(f.Add(f.ReduceStrict(f.NewElement(k)), f.Mul(a, f.Zero())))
	case "constp-inrange":
		var fp T
		f.AssertIsInRange(f.NewElement(fp.Modulus())) // p is not below p: unsatisfiable
		out(a)
	case "short":
		// operands with fewer limbs than the modulus (bit recompositions, selections of small constants)
		bits := f.ToBitsCanonical(a)
		x := f.FromBits(bits[:20]...)
		y := f.Select(bits[0], f.One(), f.Zero())
		r := f.Sub(x, y)
		r2 := f.Neg(x)
		r3 := f.Sub(f.One(), y)
		out(f.Add(f.Add(f.Mul(r, cc), r2), r3))
	case "long":
		// additions and lazy multiplications until the overflow bookkeeping forces reductions
		x := a
		for i := 0; i < 24; i++ {
			x = f.Add(x, f.MulNoReduce(a, b))
			if i%5 == 4 {
				x = f.Sub(x, cc)
			}
		}
		out(x)
	case "select":
		z := f.IsZero(f.Sub(a, b))
		out(f.Select(z, f.Add(a, cc), f.Mul(b, cc)))
	case "bits":
		bits := f.ToBitsCanonical(a)
		probe(api, 2, bits...)
		out(f.FromBits(bits...))
	case "leq":
		f.AssertIsLessOrEqual(a, b)
		out(f.Sub(b, a))
	case "neg":
		out(f.Neg(f.Sub(a, f.MulConst(b, big.NewInt(3)))))
	case "exp":
		out(f.Exp(a, f.NewElement(11)))
	case "equal":
		f.AssertIsEqual(f.Mul(a, b), cc)
		out(f.Reduce(cc))
	}
	return nil
}

func evalChain(chain string, p, a, b, c *big.Int) (res *big.Int, sat bool, any bool) {
	m := func(x *big.Int) *big.Int { return x.Mod(x, p) }
	r := new(big.Int)
	switch chain {
	case "mul":
		return m(r.Mul(a, b)), true, false
	case "muladdsub":
		r.Mul(a, b).Add(r, c)
		r.Mul(r, a).Sub(r, b)
		return m(r), true, false
	case "div":
		if new(big.Int).Mod(b, p).Sign() == 0 {
			// r*b == a: 0/0 admits any quotient (as the unchecked native division), x/0 none
			if new(big.Int).Mod(a, p).Sign() == 0 {
				return nil, true, true
			}
			return nil, false, false
		}
		r.ModInverse(b, p)
		return m(r.Mul(r, a)), true, false
	case "inverse":
		if new(big.Int).Mod(a, p).Sign() == 0 {
			return nil, false, false
		}
		return r.ModInverse(a, p), true, false
	case "sqrt":
		// a is drawn as a square: sqrt(a)^2 == a
		return m(r.Set(a)), true, false
	case "constp":
		return new(big.Int), true, false
	case "constpm1":
		return new(big.Int).Sub(p, big.NewInt(1)), true, false
	case "const1":
		return big.NewInt(1), true, false
	case "constp-inrange":
		return nil, false, false
	case "short":
		am := new(big.Int).Mod(a, p)
		x := new(big.Int).And(am, big.NewInt(1<<20-1))
		y := big.NewInt(int64(am.Bit(0)))
		rr := new(big.Int).Sub(x, y)
		rr.Mul(rr, c).Sub(rr, x).Add(rr, big.NewInt(1)).Sub(rr, y)
		return m(rr), true, false
	case "long":
		x := new(big.Int).Set(a)
		for i := 0; i < 24; i++ {
			x.Add(x, new(big.Int).Mul(a, b))
			if i%5 == 4 {
				x.Sub(x, c)
			}
		}
		return m(x), true, false
	case "select":
		if new(big.Int).Mod(new(big.Int).Sub(a, b), p).Sign() == 0 {
			return m(r.Add(a, c)), true, false
		}
		return m(r.Mul(b, c)), true, false
	case "bits":
		return m(r.Set(a)), true, false
	case "leq":
		// AssertIsLessOrEqual compares the integer values of the representations as given (a
		// witness may carry the modulus itself), not their residues
		if a.Cmp(b) > 0 {
			return nil, false, false
		}
		return m(r.Sub(b, a)), true, false
	case "neg":
		r.Mul(b, big.NewInt(3))
		r.Sub(a, r).Neg(r)
		return m(r), true, false
	case "exp":
		return r.Exp(a, big.NewInt(11), p), true, false
	case "equal":
		if new(big.Int).Mod(new(big.Int).Mul(a, b), p).Cmp(new(big.Int).Mod(c, p)) != 0 {
			return nil, false, false
		}
		return m(r.Set(c)), true, false
	}
	return nil, true, true
}

func emuCase[T emulated.FieldParams](fname, chain string) *gcase {
	var fp T
	p := fp.Modulus()
	nbits := int(fp.BitsPerLimb())
	mk := func() *emuCircuit[T] { return &emuCircuit[T]{chain: chain} }
	drawEl := func(tape *simrt.Tape) *big.Int {
		switch tape.Choose(simrt.SWorkload, 7) {
		case 0:
			return big.NewInt(0)
		case 1:
			return big.NewInt(1)
		case 2:
			return new(big.Int).Sub(p, big.NewInt(1))
		case 3:
			return new(big.Int).Set(p) // the one non-reduced value a witness can carry
		case 4:
			// all-ones limbs, reduced
			x := new(big.Int).Lsh(big.NewInt(1), uint(p.BitLen()-1))
			return x.Sub(x, big.NewInt(1))
		default:
			return drawValue(tape, p)
		}
	}
	return &gcase{
		Name:     "emulated/" + fname + "/" + chain,
		Circuit:  mk(),
		Classify: classifyEmulated,
		Assign: func(tape *simrt.Tape, q *big.Int) (frontend.Circuit, bool, func(map[int][]*big.Int) string, string) {
			a, b, c := drawEl(tape), drawEl(tape), drawEl(tape)
			switch chain {
			case "sqrt":
				s := drawValue(tape, p)
				a = s.Mul(s, s).Mod(s, p)
			case "equal":
				if tape.Choose(simrt.SWorkload, 3) != 0 {
					c = new(big.Int).Mul(a, b)
					c.Mod(c, p)
				}
			case "leq":
				if tape.Choose(simrt.SWorkload, 3) == 0 {
					b = new(big.Int).Add(new(big.Int).Mod(a, p), big.NewInt(int64(tape.Choose(simrt.SWorkload, 3)-1)))
					if b.Cmp(p) != 0 {
						b.Mod(b, p)
					}
				}
			}
			want, sat, anyOut := evalChain(chain, p, a, b, c)
			cir := mk()
			cir.A, cir.B, cir.C = emulated.ValueOf[T](a), emulated.ValueOf[T](b), emulated.ValueOf[T](c)
			check := func(pr map[int][]*big.Int) string {
				if anyOut {
					return ""
				}
				limbs := pr[1]
				got := new(big.Int)
				for i := len(limbs) - 1; i >= 0; i-- {
					if limbs[i].BitLen() > nbits {
						return fmt.Sprintf("limb %d of the strictly reduced result has %d bits (> %d)", i, limbs[i].BitLen(), nbits)
					}
					got.Lsh(got, uint(nbits)).Or(got, limbs[i])
				}
				if got.Cmp(p) >= 0 {
					return fmt.Sprintf("the strictly reduced result %s is not below the modulus", got)
				}
				if got.Cmp(want) != 0 {
					return fmt.Sprintf("result %s, expected %s (mod p)", got, want)
				}
				if chain == "bits" || strings.HasPrefix(chain, "const") {
					am := new(big.Int).Mod(a, p)
					if strings.HasPrefix(chain, "const") {
						am = want
					}
					for i, bt := range pr[2] {
						if bt.Cmp(big.NewInt(int64(am.Bit(i)))) != 0 {
							return fmt.Sprintf("canonical bit %d is %s, expected %d", i, bt, am.Bit(i))
						}
					}
				}
				return ""
			}
			desc := fmt.Sprintf("a=%s b=%s c=%s", a, b, c)
			if anyOut {
				desc = "free-verdict:" + desc
			}
			return cir, sat, check, desc
		},
	}
}

// classifyEmulated says whether the accepted wrong answer relies on carries of a
// multiplication check that are far outside what an honest computation produces.
func classifyEmulated(honest, faulted []hintCall, planned map[int]bool, q *big.Int) string {
	// planned is a Go map: visit it in a fixed order and prefer the most specific finding, so
	// that the key of a violation never depends on map iteration order
	idxs := sortedKeys(planned)
	other := "?"
	inRange := ""
	for _, idx := range idxs {
		if idx >= len(faulted) {
			continue
		}
		c := faulted[idx]
		short := c.Name[strings.LastIndex(c.Name, ".")+1:]
		var nbBits, ncarry int
		switch short {
		case "mulHint":
			if len(c.In) < 4 {
				continue
			}
			nbBits = int(c.In[0].Int64())
			ncarry = len(c.Out) - int(c.In[3].Int64()) - int(c.In[1].Int64())
		case "polyMvHint":
			if len(c.In) < 6 {
				continue
			}
			nbBits = int(c.In[0].Int64())
			ncarry = int(c.In[5].Int64())
		default:
			if other == "?" {
				other = short
			}
			continue
		}
		if ncarry <= 0 || ncarry > len(c.Out) {
			if other == "?" {
				other = short
			}
			continue
		}
		bound := 2*nbBits + 24
		wide := false
		for _, x := range c.Out[len(c.Out)-ncarry:] {
			if x == nil {
				continue
			}
			neg := new(big.Int).Sub(q, x)
			if x.BitLen() > bound && neg.BitLen() > bound {
				wide = true
			}
		}
		if wide {
			return short + ":carry-out-of-range"
		}
		if inRange == "" {
			inRange = short + ":carries-in-range"
		}
	}
	if inRange != "" {
		return inRange
	}
	return other
}

func sortedKeys(m map[int]bool) []int {
	var l []int
	for k := range m {
		l = append(l, k)
	}
	sort.Ints(l)
	return l
}

var emuChains = []string{"mul", "muladdsub", "div", "inverse", "sqrt", "long", "select", "bits", "leq", "neg", "exp", "equal", "short"}

func emuCases() []*gcase {
	var out []*gcase
	for _, ch := range emuChains {
		out = append(out,
			emuCase[emulated.Goldilocks]("goldilocks", ch),
			emuCase[emulated.Secp256k1Fp]("secp256k1fp", ch),
			emuCase[emulated.BN254Fp]("bn254fp", ch),
			emuCase[emulated.BLS12381Fp]("bls12381fp", ch),
		)
	}
	// chains on library-built constants: the builders refuse to reduce a constant at compile time,
	// so these run on the test engine only
	for _, ch := range []string{"constp", "constpm1", "const1", "constp-inrange"} {
		for _, c := range []*gcase{emuCase[emulated.Goldilocks]("goldilocks", ch), emuCase[emulated.Secp256k1Fp]("secp256k1fp", ch), emuCase[emulated.BN254Fp]("bn254fp", ch)} {
			c.EngineOnly = true
			out = append(out, c)
		}
	}
	return out
}

var c12Cases = emuCases()

// emulated-specific strategy: add (or subtract) a window of the hint's inputs to a window of
// its outputs - with the right windows this is "remainder + p", "quotient - 1", a carry moved
// by a whole limb of the modulus, ...
func init() {
	strategies = append(strategies, strategy{"add-input-window", func(tape *simrt.Tape) func(*nemesis, int, solver.Hint, *big.Int, []*big.Int, []*big.Int) error {
		i0, j0, k0 := tape.Raw(simrt.SFault), tape.Raw(simrt.SFault), tape.Raw(simrt.SFault)
		neg := tape.Choose(simrt.SFault, 2) == 1
		fix := tape.Choose(simrt.SFault, 2) == 1
		return func(n *nemesis, idx int, f solver.Hint, q *big.Int, in, out []*big.Int) error {
			if err := f(q, in, out); err != nil {
				return err
			}
			if len(in) == 0 || len(out) == 0 {
				return nil
			}
			k := 1 + int(k0)%6
			i, j := int(i0)%len(out), int(j0)%len(in)
			for t := 0; t < k && i+t < len(out) && j+t < len(in); t++ {
				if neg {
					out[i+t].Sub(out[i+t], in[j+t])
				} else {
					out[i+t].Add(out[i+t], in[j+t])
				}
				modq(out[i+t], q)
			}
			// optionally compensate in the preceding output (quotient -/+ 1)
			if fix && i > 0 {
				if neg {
					out[i-1].Add(out[i-1], big.NewInt(1))
				} else {
					out[i-1].Sub(out[i-1], big.NewInt(1))
				}
				modq(out[i-1], q)
			}
			return nil
		}
	}})
	register(&Engine{Name: "c12", Prop: "C12", Run: func(w *Worker, tape *simrt.Tape) *Outcome {
		var fields []sField
		for _, c := range w.curves() {
			fields = append(fields, sField{Name: c.String(), Q: c.ScalarField(), Curve: c})
		}
		return nemesisRun(w, tape, "C12", c12Cases, fields)
	}})
}
