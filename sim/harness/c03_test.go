package harness

import (
	"crypto/sha256"
	"crypto/sha512"
	"fmt"
	"hash"
	"math/big"
	"strings"

	"github.com/consensys/gnark/backend"
	"github.com/consensys/gnark/backend/groth16"
	"github.com/consensys/gnark/backend/plonk"
	"github.com/consensys/gnark/constraint/solver"
	"golang.org/x/crypto/sha3"
	"verifsim/simrt"
)

// C03: Setup -> Prove -> Verify for generated circuits under tape-chosen schedules of the
// internally concurrent provers, option combinations and task counts. Negative runs: one
// assertion broken, a hint failing at invocation k, entropy failing at draw k. Oracle: a
// satisfying assignment proves and verifies (and with pinned entropy the proof bytes equal
// the default-schedule proof); otherwise Prove returns an error - no panic, no deadlock - within
// a number of scheduling steps bounded by the fault-free run of the same configuration.

type optSet struct {
	Name     string
	HTF      func() hash.Hash
	Chal     func() hash.Hash
	Fold     func() hash.Hash
	StatZK   bool
	Mismatch bool // verifier is configured differently from the prover: must reject
}

var optSets = []optSet{
	{Name: "default"},
	{Name: "htf=sha3", HTF: sha3.New256},
	{Name: "htf=sha512", HTF: sha512.New},         // digest wider than a field element
	{Name: "htf=sha384+statzk", HTF: sha512.New384, StatZK: true},
	{Name: "htf=sha224", HTF: sha256.New224},       // digest narrower than a field element
	{Name: "chal=sha512", Chal: sha512.New},
	{Name: "fold=sha3", Fold: sha3.New256},
	{Name: "statzk", StatZK: true},
	{Name: "all", HTF: sha3.New256, Chal: sha512.New, Fold: sha3.NewLegacyKeccak256, StatZK: true},
	{Name: "mismatch-htf", HTF: sha3.New256, Mismatch: true},
	{Name: "mismatch-chal", Chal: sha512.New, Mismatch: true},
}

func (s optSet) prover(sopts []solver.Option) []backend.ProverOption {
	out := []backend.ProverOption{backend.WithSolverOptions(sopts...)}
	if s.HTF != nil {
		out = append(out, backend.WithProverHashToFieldFunction(s.HTF()))
	}
	if s.Chal != nil {
		out = append(out, backend.WithProverChallengeHashFunction(s.Chal()))
	}
	if s.Fold != nil {
		out = append(out, backend.WithProverKZGFoldingHashFunction(s.Fold()))
	}
	if s.StatZK {
		out = append(out, backend.WithStatisticalZeroKnowledge())
	}
	return out
}

func (s optSet) verifier() []backend.VerifierOption {
	var out []backend.VerifierOption
	if s.Mismatch {
		// the verifier keeps the defaults (sha256) while the prover used something else
		_ = sha256.New
		return out
	}
	if s.HTF != nil {
		out = append(out, backend.WithVerifierHashToFieldFunction(s.HTF()))
	}
	if s.Chal != nil {
		out = append(out, backend.WithVerifierChallengeHashFunction(s.Chal()))
	}
	if s.Fold != nil {
		out = append(out, backend.WithVerifierKZGFoldingHashFunction(s.Fold()))
	}
	return out
}

// relevant reports whether a mismatching option actually influences the proof of fx.
func (s optSet) mismatchBites(fx *Fixture) bool {
	if !s.Mismatch {
		return false
	}
	if s.Chal != nil {
		return fx.Backend == bePlonk
	}
	// hash-to-field is only used for commitments (explicit ones, or those that lookups and
	// range checks add)
	return fx.hasCommitment()
}

func (fx *Fixture) hasCommitment() bool {
	return len(fx.CCS.GetCommitments().CommitmentIndexes()) > 0
}

type proveRes struct {
	Prove  *callResult
	Verify *callResult
}

func proveVerify(fx *Fixture, wi int, os optSet, sopts []solver.Option, scope string, afterProve func()) proveRes {
	sc := simrt.SetScope(scope)
	var r proveRes
	r.Prove = &callResult{}
	defer func() { r.Prove.Ambiguous = sc.Ambiguous() }()
	w := fx.Wits[wi]
	var proof any
	var err error
	if fx.Backend == beGroth16 {
		proof, err = groth16.Prove(fx.CCS, fx.PK.(groth16.ProvingKey), w.Full, os.prover(sopts)...)
	} else {
		proof, err = plonk.Prove(fx.CCS, fx.PK.(plonk.ProvingKey), w.Full, os.prover(sopts)...)
	}
	if afterProve != nil {
		afterProve()
	}
	if err != nil {
		r.Prove.ErrClass, r.Prove.Err = errClass(err), err.Error()
		return r
	}
	r.Prove.Bytes = toBytes(proof)
	r.Prove.Obj = proof
	r.Verify = &callResult{}
	if fx.Backend == beGroth16 {
		err = groth16.Verify(proof.(groth16.Proof), fx.VK.(groth16.VerifyingKey), w.Pub, os.verifier()...)
	} else {
		err = plonk.Verify(proof.(plonk.Proof), fx.VK.(plonk.VerifyingKey), w.Pub, os.verifier()...)
	}
	if err != nil {
		r.Verify.ErrClass, r.Verify.Err = "verify-reject", err.Error()
	}
	return r
}

const (
	scValid = iota
	scInvalid
	scHintErr
	scEntropyErr
	scEntropyShort
	numScenarios
)

var scNames = []string{"valid", "invalid-witness", "hint-error", "entropy-error", "entropy-short-read"}

var c03Feat = GenFeat{Commit: true, ChainCommit: true, Lookup: true, Range: true, Hint: true, Wide: true, Bits: true, ScaledBool: true, MaxOps: 9, MinOps: 1}

type c03ref struct {
	res   proveRes
	steps int
	draws uint64
}

var c03refs = map[string]*c03ref{}

func c03Run(w *Worker, tape *simrt.Tape) *Outcome {
	o := &Outcome{}
	ch := func(n int) int { return tape.Choose(simrt.SWorkload, n) }
	curves := w.curves()
	curve := curves[0]
	if ch(3) == 0 {
		curve = curves[ch(len(curves))]
	}
	be := ch(2)
	slot := ch(w.paramInt("slots", 40))
	fx, err := w.fixture(be, curve, slot, c03Feat, true)
	if err != nil {
		o.probe("fixture_skipped") // the generated program does not compile (e.g. commits to a constant): not a case
		o.Desc = "skipped: " + err.Error()
		return o
	}
	os := optSets[ch(len(optSets))]
	nb := nbTasksChoices[ch(len(nbTasksChoices))]
	scenario := []int{scValid, scValid, scValid, scInvalid, scInvalid, scHintErr, scEntropyErr, scEntropyShort}[ch(8)]
	if scenario == scHintErr && !fx.Prog.hasOp(opHintSq) {
		scenario = scInvalid
	}
	cfg := drawPolicy(tape)
	var valid []int
	invalid := -1
	for i, wt := range fx.Wits {
		if wt.Valid {
			valid = append(valid, i)
		} else {
			invalid = i
		}
	}
	wi := valid[ch(len(valid))]
	if scenario == scInvalid {
		wi = invalid
	}
	var sopts []solver.Option
	if nb > 0 {
		sopts = append(sopts, solver.WithNbTasks(nb))
	}
	where := beNames[be]
	o.Desc = fmt.Sprintf("%s/%s/slot%d[%s] w%d tasks=%d opts=%s scenario=%s", beNames[be], curve, slot, fx.Prog.Kinds(), wi, nb, os.Name, scNames[scenario])
	o.NonTrivial = true
	scope := fmt.Sprintf("prove/w%d/t%d/%s", wi, nb, os.Name)
	ekey := simrt.Mix(w.Seed^0xc03, uint64(slot)*16+uint64(be))

	// fault-free reference: default schedule, same configuration, valid witness
	refKey := fmt.Sprintf("%d/%s/%d/%s", be, curve, slot, scope)
	refWi := wi
	if scenario == scInvalid {
		refWi = valid[0]
		refKey = fmt.Sprintf("%d/%s/%d/prove/w%d/t%d/%s", be, curve, slot, refWi, nb, os.Name)
	}
	ref := c03refs[refKey]
	if ref == nil {
		ent := w.SetEntropy(ekey, simrt.EntKeyed, 0)
		var r proveRes
		res := w.RunSim(simrt.Config{Tape: simrt.NewTape(1), Policy: simrt.PolDefault, HotPeriod: 1}, func() {
			r = proveVerify(fx, refWi, os, sopts, fmt.Sprintf("prove/w%d/t%d/%s", refWi, nb, os.Name), nil)
		})
		o.Sims = append(o.Sims, res)
		if simViolation(o, &res, where) {
			o.Viol.Msg += "\n(default schedule) case: " + o.Desc + "\nprog: " + fx.Prog.String()
			return o
		}
		ref = &c03ref{res: r, steps: res.Steps, draws: ent.Draws()}
		c03refs[refKey] = ref
		o.Evals++
		if msg := c03Judge(fx, os, scValid, r); msg != "" {
			o.violate("incomplete", "incomplete:"+where+":"+strings.SplitN(msg, ":", 2)[0], msg+"\n(default schedule) case: "+o.Desc+"\nprog: "+fx.Prog.String())
			return o
		}
	}

	// the run proper
	mode, failAt := simrt.EntKeyed, uint64(0)
	switch scenario {
	case scEntropyErr, scEntropyShort:
		mode = simrt.EntErrAfter
		if scenario == scEntropyShort {
			mode = simrt.EntShortRead
		}
		n := int(ref.draws)
		if n == 0 {
			n = 1
		}
		failAt = uint64(tape.Choose(simrt.SFault, n))
	}
	ent := w.SetEntropy(ekey, mode, failAt)
	hintCalls, hintFail := 0, -1
	if scenario == scHintErr {
		hintFail = tape.Choose(simrt.SFault, 2)
		id := solver.GetHintID(squareHint)
		sopts = append(sopts[:len(sopts):len(sopts)], solver.OverrideHint(id, func(q *big.Int, in, out []*big.Int) error {
			hintCalls++
			if hintCalls-1 == hintFail {
				return errInjectedHint
			}
			return squareHint(q, in, out)
		}))
	}
	var got proveRes
	var failed uint64
	res := w.RunSim(cfg, func() {
		// the entropy fault is confined to Prove: the verifier draws its own (healthy) randomness
		got = proveVerify(fx, wi, os, sopts, scope, func() { failed = ent.Failed(); ent.Mode = simrt.EntKeyed })
	})
	o.Sims = append(o.Sims, res)
	o.Evals++
	o.probe("policy:" + simrt.PolicyNames[cfg.Policy])
	o.probe("scenario:" + scNames[scenario])
	o.probe("opts:" + os.Name)
	o.probe("curve:" + curve.String())
	if res.Leaked > 0 {
		o.probeN("leaked_tasks", res.Leaked)
		o.probe("runs_with_leaked_tasks:" + scNames[scenario])
	}
	if simViolation(o, &res, where+":"+scNames[scenario]) {
		o.Viol.Msg += "\ncase: " + o.Desc + "\nprog: " + fx.Prog.String()
		return o
	}
	if got.Prove == nil {
		o.violate("no-result", "no-result:"+where, "Prove did not return\ncase: "+o.Desc)
		return o
	}
	// bounded liveness once the fault has happened: compare with the fault-free step count
	if bound := 3*ref.steps + 5000; res.Steps > bound {
		o.violate("slow-failure", "slow-failure:"+where+":"+scNames[scenario], fmt.Sprintf("%d scheduling steps, fault-free run of the same configuration takes %d\ncase: %s", res.Steps, ref.steps, o.Desc))
		return o
	}
	switch scenario {
	case scValid:
		if msg := c03Judge(fx, os, scValid, got); msg != "" {
			o.violate("incomplete", "incomplete:"+where+":"+strings.SplitN(msg, ":", 2)[0], msg+"\ncase: "+o.Desc+"\nprog: "+fx.Prog.String())
		} else if !got.Prove.equal(ref.res.Prove) && !got.Prove.Ambiguous && !ref.res.Prove.Ambiguous && ent.Anon() == 0 {
			o.violate("schedule-dependent-proof", "schedule-dependent-proof:"+where, fmt.Sprintf("with pinned entropy the proof differs from the default-schedule proof: %s vs %s\ncase: %s\nprog: %s", got.Prove.short(), ref.res.Prove.short(), o.Desc, fx.Prog))
		} else if got.Prove.equal(ref.res.Prove) {
			o.probe("proof_bytes_equal_default_schedule")
		}
	case scInvalid:
		if got.Prove.ErrClass == "" {
			o.violate("proof-of-invalid-witness", "proof-of-invalid-witness:"+where, "Prove returned a proof for a non-satisfying assignment\ncase: "+o.Desc+"\nprog: "+fx.Prog.String())
		} else if got.Prove.ErrClass != "unsatisfied" {
			o.probe("invalid_witness_error_class:" + got.Prove.ErrClass)
		}
	case scHintErr:
		if hintCalls > hintFail {
			o.fault("hint_error")
			if got.Prove.ErrClass == "" {
				o.violate("hint-error-swallowed", "hint-error-swallowed:"+where, "a hint failed but Prove returned a proof\ncase: "+o.Desc)
			}
		} else if msg := c03Judge(fx, os, scValid, got); msg != "" {
			o.violate("incomplete", "incomplete:"+where+":"+strings.SplitN(msg, ":", 2)[0], msg+"\ncase: "+o.Desc)
		}
	case scEntropyErr, scEntropyShort:
		if failed > 0 {
			o.fault(scNames[scenario])
			// Prove may fail; if it returns a proof the proof must verify (never wrong data)
			if got.Prove.ErrClass == "" {
				o.probe("proof_despite_entropy_failure")
				if msg := c03Judge(fx, os, scValid, got); msg != "" {
					o.violate("bad-proof-after-entropy-failure", "bad-proof-after-entropy-failure:"+where, msg+"\ncase: "+o.Desc)
				}
			} else {
				o.probe("prove_error_on_entropy_failure")
			}
		} else if msg := c03Judge(fx, os, scValid, got); msg != "" {
			o.violate("incomplete", "incomplete:"+where+":"+strings.SplitN(msg, ":", 2)[0], msg+"\ncase: "+o.Desc)
		}
	}
	if o.Viol != nil && o.Viol.Trace == nil {
		o.Viol.Trace = res.Trace
	}
	if o.Sample == nil {
		o.Sample = map[string]any{"case": o.Desc, "policy": simrt.PolicyNames[cfg.Policy], "steps": res.Steps, "fault_free_steps": ref.steps, "tasks": res.Tasks, "prove": got.Prove.short()}
	}
	return o
}

// c03Judge applies the completeness oracle to a prove+verify result of a valid witness.
func c03Judge(fx *Fixture, os optSet, scenario int, r proveRes) string {
	if r.Prove == nil {
		return "no-result: Prove did not return"
	}
	if r.Prove.ErrClass != "" {
		return "prove-failed: Prove failed on a satisfying assignment: " + r.Prove.Err
	}
	if r.Verify == nil {
		return "no-result: Verify did not return"
	}
	if os.mismatchBites(fx) {
		if r.Verify.ErrClass == "" {
			return "inconsistent-options-accepted: Verify accepted a proof made with different hash options (" + os.Name + ")"
		}
		return ""
	}
	if r.Verify.ErrClass != "" {
		return "verify-rejected: Verify rejected the proof of a satisfying assignment: " + r.Verify.Err
	}
	return ""
}

func init() {
	register(&Engine{Name: "c03", Prop: "C03", Run: c03Run})
}
