// Package harness holds the simulation engines. It is compiled as one test binary against
// an instrumented scratch copy of gnark (see bin/check); the worker entry point is
// TestWorker, driven entirely by environment variables.
package harness

import (
	"crypto/rand"
	"encoding/binary"
	"encoding/json"
	"fmt"
	"io"
	"os"
	"regexp"
	"runtime"
	"sort"
	"strconv"
	"strings"
	"testing"
	"testing/synctest"
	"time"

	"github.com/consensys/gnark/logger"
	"verifsim/simrt"
)

func init() { logger.Disable() }

// Violation is what an oracle reports.
type Violation struct {
	Class  string   `json:"class"` // short machine-readable class, part of the identity of a finding
	Key    string   `json:"key"`   // class + the specific site / input shape (matched against known findings)
	Msg    string   `json:"message"`
	Trace  []string `json:"trace,omitempty"`
	Faults []string `json:"faults,omitempty"`
}

// Outcome of one simulated run (one tape).
type Outcome struct {
	Desc       string // descriptor of the case explored (distinctness is counted on it)
	NonTrivial bool
	Viol       *Violation
	Sims       []simrt.Result
	Faults     map[string]int // fault kinds that actually fired
	Probes     map[string]int // rare-branch probes
	Evals      int            // oracle evaluations
	Sample     any
	Exhaustive bool
	// XProc: values that must be identical in every process that computes them (checked by the
	// supervisor across workers), e.g. hash of the bytes of a compiled fixture
	XProc map[string]string
	// KnownHits: violations that matched a known finding and did not end the run
	KnownHits map[string]string
}

// violateOrKnown records a violation unless it is a listed known finding, in which case it is
// counted and the run goes on (so that a known finding does not mask the rest of the batch).
// It reports whether the run must stop.
func (o *Outcome) violateOrKnown(w *Worker, class, key, msg string) bool {
	v := &Violation{Class: class, Key: key, Msg: msg}
	if k := w.matchKnown(v); k != nil {
		if o.KnownHits == nil {
			o.KnownHits = map[string]string{}
		}
		o.KnownHits[k.Key] = k.What
		o.probe("known_finding_hits")
		return false
	}
	if o.Viol == nil {
		o.Viol = v
	}
	return true
}

func (o *Outcome) fault(k string) {
	if o.Faults == nil {
		o.Faults = map[string]int{}
	}
	o.Faults[k]++
}
func (o *Outcome) probe(k string) {
	if o.Probes == nil {
		o.Probes = map[string]int{}
	}
	o.Probes[k]++
}
func (o *Outcome) probeN(k string, n int) {
	if o.Probes == nil {
		o.Probes = map[string]int{}
	}
	o.Probes[k] += n
}
func (o *Outcome) violate(class, key, msg string) {
	if o.Viol == nil {
		o.Viol = &Violation{Class: class, Key: key, Msg: msg}
	}
}

// Engine is one simulation workload + oracle.
type Engine struct {
	Name string
	Prop string
	Init func(w *Worker)
	Run  func(w *Worker, tape *simrt.Tape) *Outcome
	// StreamOrder is the order in which streams are minimised.
	StreamOrder []string
}

var engines = map[string]*Engine{}

func register(e *Engine) { engines[e.Name] = e }

// Worker is the per-process state.
type Worker struct {
	T        *testing.T
	Eng      *Engine
	Seed     uint64
	Tier     string
	Params   map[string]string
	Thorough bool
	Race     bool
	ent      *simrt.Entropy
	known    []knownFinding
}

type knownFinding struct {
	Property string `json:"property"`
	Status   string `json:"status"`
	Key      string `json:"key"` // regular expression matched against Violation.Key
	What     string `json:"what"`
	Commit   string `json:"commit,omitempty"`
	re       *regexp.Regexp
}

func (w *Worker) param(k, def string) string {
	if v, ok := w.Params[k]; ok {
		return v
	}
	return def
}
func (w *Worker) paramInt(k string, def int) int {
	if v, ok := w.Params[k]; ok {
		n, err := strconv.Atoi(v)
		if err == nil {
			return n
		}
	}
	return def
}

// SetEntropy installs a fresh entropy source as crypto/rand.Reader.
func (w *Worker) SetEntropy(key uint64, mode int, failAt uint64) *simrt.Entropy {
	e := &simrt.Entropy{Key: key, Mode: mode, FailAt: failAt}
	w.ent = e
	rand.Reader = e
	return e
}

// Policy draws a scheduling configuration from the tape (swarm style).
func drawPolicy(tape *simrt.Tape) simrt.Config {
	cfg := simrt.Config{Tape: tape}
	cfg.HotPeriod = []int{64, 1, 8, 512}[tape.Choose(simrt.SWorkload, 4)]
	switch tape.Choose(simrt.SWorkload, 8) {
	case 0:
		cfg.Policy = simrt.PolDefault
	case 1, 2:
		cfg.Policy = simrt.PolUniform
	case 3, 4:
		cfg.Policy = simrt.PolSticky
		cfg.StickyPct = []int{50, 80, 95}[tape.Choose(simrt.SWorkload, 3)]
	case 5:
		cfg.Policy = simrt.PolPCT
		cfg.PCTDepth = 1 + tape.Choose(simrt.SWorkload, 3)
		cfg.PCTSpan = []int{200, 1000, 5000}[tape.Choose(simrt.SWorkload, 3)]
	case 6:
		cfg.Policy = simrt.PolStarve
		cfg.Victim = tape.Choose(simrt.SWorkload, 6)
	case 7:
		cfg.Policy = simrt.PolRoundRobin
	}
	return cfg
}

// RunSim executes root as the root task of a fresh bubble under the scheduler.
func (w *Worker) RunSim(cfg simrt.Config, root func()) (res simrt.Result) {
	if cfg.KeepTrace == 0 {
		cfg.KeepTrace = 40
	}
	// synctest.Test calls t.FailNow (runtime.Goexit) when the race detector reported something
	// during the bubble, and panics when blocked goroutines remain: run it on its own goroutine
	// so that neither ends the worker.
	done := make(chan struct{})
	go func() {
		defer close(done)
		defer func() {
			if r := recover(); r != nil {
				res.Bubble = fmt.Sprint(r)
			}
		}()
		synctest.Test(w.T, func(t *testing.T) {
			res = simrt.Run(cfg, root)
		})
	}()
	<-done
	return
}

// simViolation turns scheduler-level outcomes (panic, deadlock, step limit, race) into a violation.
func simViolation(o *Outcome, res *simrt.Result, where string) bool {
	switch {
	case res.Panic != "":
		site := panicSite(res.PanicStack)
		o.violate("panic", "panic:"+where+":"+site, res.Panic+"\n"+res.PanicStack)
	case res.Deadlock:
		o.violate("deadlock", "deadlock:"+where+":"+blockedSites(res.Blocked), "deadlock; blocked tasks: "+strings.Join(res.Blocked, ", "))
	case res.StepLimit:
		o.violate("livelock", "livelock:"+where, fmt.Sprintf("step limit reached after %d steps; unfinished: %s", res.Steps, strings.Join(res.Blocked, ", ")))
	case res.Races > 0:
		rep := lastRaceReport()
		o.violate("race", "race:"+where+":"+raceSites(rep), fmt.Sprintf("%d data race report(s) in a serialised schedule\n%s", res.Races, rep))
	default:
		return false
	}
	if o.Viol != nil && o.Viol.Trace == nil {
		o.Viol.Trace = res.Trace
	}
	return true
}

var reFrame = regexp.MustCompile(`gnark/([A-Za-z0-9_\-./]+\.go):(\d+)`)

func panicSite(stack string) string {
	for _, l := range strings.Split(stack, "\n") {
		if strings.Contains(l, "simrt") || strings.Contains(l, "/harness/") {
			continue
		}
		if m := reFrame.FindStringSubmatch(l); m != nil {
			return m[1]
		}
	}
	return "?"
}

func blockedSites(b []string) string {
	set := map[string]bool{}
	for _, x := range b {
		if i := strings.Index(x, "@"); i >= 0 {
			x = x[i+1:]
		}
		// drop the line number: robust to unrelated edits
		if j := strings.LastIndex(x, ":"); j >= 0 {
			x = x[:j]
		}
		set[x] = true
	}
	var l []string
	for k := range set {
		l = append(l, k)
	}
	sort.Strings(l)
	if len(l) > 4 {
		l = l[:4]
	}
	return strings.Join(l, ",")
}

// race reports are written by the runtime to GORACE log_path.<pid>
var raceLogOff int64

func lastRaceReport() string {
	p := os.Getenv("VERIF_RACELOG")
	if p == "" {
		return ""
	}
	f, err := os.Open(p + "." + strconv.Itoa(os.Getpid()))
	if err != nil {
		return ""
	}
	defer f.Close()
	f.Seek(raceLogOff, 0)
	b, _ := io.ReadAll(io.LimitReader(f, 1<<16))
	st, _ := f.Stat()
	if st != nil {
		raceLogOff = st.Size()
	}
	return string(b)
}

func raceSites(rep string) string {
	set := map[string]bool{}
	n := 0
	for _, l := range strings.Split(rep, "\n") {
		if strings.Contains(l, "simrt") || strings.Contains(l, "/harness/") {
			continue
		}
		if m := reFrame.FindStringSubmatch(l); m != nil {
			if !set[m[1]] {
				set[m[1]] = true
				n++
			}
			if n >= 2 {
				break
			}
		}
	}
	var out []string
	for k := range set {
		out = append(out, k)
	}
	sort.Strings(out)
	return strings.Join(out, ",")
}

// ------------------------------------------------------------------------------------------
// worker

type summary struct {
	Engine        string         `json:"engine"`
	Prop          string         `json:"property"`
	Seed          uint64         `json:"seed"`
	Lo, Hi        uint64         `json:"-"`
	Runs          int            `json:"runs"`
	Evals         int            `json:"evaluations"`
	Steps         int            `json:"sched_steps"`
	Bubbles       int            `json:"bubbles"`
	MultiReady    int            `json:"multi_ready_decisions"`
	Tasks         int            `json:"tasks"`
	Leaked        int            `json:"leaked_tasks"`
	UnregYields   int64          `json:"unregistered_yields"`
	Faults        map[string]int `json:"faults_fired"`
	Probes        map[string]int `json:"probes"`
	Policies      map[string]int `json:"policies"`
	Sites         map[string]int `json:"sites"`
	Samples       []any          `json:"samples"`
	Violations    []vioRec       `json:"violations"`
	Known         map[string]int `json:"known_findings"`
	KnownWhat     map[string]string `json:"known_what"`
	Distinct      int            `json:"distinct_nontrivial"`
	WallS         float64        `json:"wall_s"`
	Exhaustive    bool           `json:"exhaustive"`
	EntropyDraws  uint64         `json:"entropy_draws"`
	EntropyBytes  uint64         `json:"entropy_bytes"`
	MapSeamed     int64          `json:"map_iterations_seamed"`
	MapUnseamed   int64          `json:"map_iterations_unseamed"`
	MapPermuted   int64          `json:"map_iterations_permuted"`
	XProc         map[string]string `json:"xproc"`
	Done          bool           `json:"done"`
	RaceBuild     bool           `json:"race_build"`
	StoppedEarly  string         `json:"stopped_early,omitempty"`
}

type vioRec struct {
	Run    uint64 `json:"run"`
	Class  string `json:"class"`
	Key    string `json:"key"`
	Msg    string `json:"message"`
	Replay string `json:"replay"`
}

func envU(k string, def uint64) uint64 {
	if v := os.Getenv(k); v != "" {
		n, err := strconv.ParseUint(v, 10, 64)
		if err == nil {
			return n
		}
	}
	return def
}

func loadKnown(prop string) []knownFinding {
	p := os.Getenv("VERIF_KNOWN")
	if p == "" {
		return nil
	}
	b, err := os.ReadFile(p)
	if err != nil {
		return nil
	}
	var all []knownFinding
	if err := json.Unmarshal(b, &all); err != nil {
		fmt.Fprintln(os.Stderr, "known findings file unreadable:", err)
		os.Exit(2)
	}
	var out []knownFinding
	for _, k := range all {
		if k.Property == prop && k.Status == "known" {
			k.re = regexp.MustCompile(k.Key)
			out = append(out, k)
		}
	}
	return out
}

func (w *Worker) matchKnown(v *Violation) *knownFinding {
	for i := range w.known {
		if w.known[i].re.MatchString(v.Key) {
			return &w.known[i]
		}
	}
	return nil
}

func TestWorker(t *testing.T) {
	name := os.Getenv("VERIF_ENGINE")
	if name == "" {
		t.Skip("VERIF_ENGINE not set")
	}
	eng := engines[name]
	if eng == nil {
		fmt.Fprintln(os.Stderr, "unknown engine", name)
		os.Exit(2)
	}
	w := &Worker{T: t, Eng: eng, Seed: envU("VERIF_SEED", 1), Tier: os.Getenv("VERIF_TIER"), Params: map[string]string{}, Race: simrt.RaceBuild}
	w.Thorough = w.Tier == "thorough"
	for _, kv := range strings.Split(os.Getenv("VERIF_PARAMS"), ",") {
		if i := strings.Index(kv, "="); i > 0 {
			w.Params[kv[:i]] = kv[i+1:]
		}
	}
	w.known = loadKnown(eng.Prop)
	out := os.Getenv("VERIF_OUT")
	replayDir := os.Getenv("VERIF_REPLAYDIR")
	w.SetEntropy(w.Seed, simrt.EntKeyed, 0)
	if eng.Init != nil {
		eng.Init(w)
	}
	if rp := os.Getenv("VERIF_REPLAY"); rp != "" {
		w.replay(rp, out)
		return
	}
	lo, hi := envU("VERIF_LO", 0), envU("VERIF_HI", 1)
	deadline := time.Now().Add(time.Duration(envU("VERIF_BUDGET_S", 3600)) * time.Second)
	maxViol := int(envU("VERIF_MAXVIOL", 2))
	start := time.Now()
	sum := &summary{Engine: eng.Name, Prop: eng.Prop, Seed: w.Seed, Faults: map[string]int{}, Probes: map[string]int{}, Policies: map[string]int{}, Sites: map[string]int{}, Known: map[string]int{}, KnownWhat: map[string]string{}, RaceBuild: simrt.RaceBuild}
	inter := map[uint64]struct{}{}
	states := map[uint64]struct{}{}
	descs := map[uint64]struct{}{}
	progress := out + ".cur"
	var ebytes, edraws uint64
	for i := lo; i < hi; i++ {
		if time.Now().After(deadline) {
			sum.StoppedEarly = fmt.Sprintf("wall-clock budget reached after %d of %d runs", i-lo, hi-lo)
			break
		}
		os.WriteFile(progress, []byte(strconv.FormatUint(i, 10)), 0o644)
		if (i-lo)%8 == 0 && i > lo {
			// a partial summary, so that a worker killed by the run in progress (out of memory,
			// runtime fatal) does not take the counts of its earlier runs with it
			sum.Distinct = len(descs)
			sum.WallS = time.Since(start).Seconds()
			sum.EntropyBytes, sum.EntropyDraws = ebytes, edraws
			sum.MapSeamed, sum.MapUnseamed, sum.MapPermuted = simrt.MapStats()
			if b, err := json.Marshal(sum); err == nil {
				os.WriteFile(out+".part", b, 0o644)
			}
		}
		tape := simrt.NewTape(simrt.Mix(w.Seed, i))
		w.SetEntropy(simrt.Mix(w.Seed, i)^0xe17, simrt.EntKeyed, 0)
		o := eng.Run(w, tape)
		edraws += w.ent.Draws()
		ebytes += w.ent.Bytes()
		sum.Runs++
		sum.Evals += o.Evals
		if o.Exhaustive {
			sum.Exhaustive = true
		}
		for _, r := range o.Sims {
			sum.Bubbles++
			sum.Steps += r.Steps
			sum.MultiReady += r.MultiReady
			sum.Tasks += r.Tasks
			sum.Leaked += r.Leaked
			sum.UnregYields += r.Unreg
			inter[r.Hash] = struct{}{}
			if len(states) < 4_000_000 {
				for _, s := range r.States {
					states[s] = struct{}{}
				}
			}
			for k, v := range r.SiteCount {
				sum.Sites[k] += v
			}
		}
		for k, v := range o.Faults {
			sum.Faults[k] += v
		}
		for k, v := range o.Probes {
			sum.Probes[k] += v
		}
		if o.NonTrivial {
			descs[hash64(o.Desc)] = struct{}{}
		}
		for k, what := range o.KnownHits {
			sum.Known[k]++
			sum.KnownWhat[k] = what
		}
		for k, v := range o.XProc {
			if sum.XProc == nil {
				sum.XProc = map[string]string{}
			}
			if old, ok := sum.XProc[k]; ok && old != v && o.Viol == nil {
				o.violate("differs-within-process", "differs-within-process:"+strings.SplitN(k, "/", 2)[0], fmt.Sprintf("%s: %s earlier in this process, %s now", k, old, v))
			}
			sum.XProc[k] = v
		}
		if o.Sample != nil && len(sum.Samples) < 3 {
			sum.Samples = append(sum.Samples, o.Sample)
		}
		if o.Viol != nil {
			if k := w.matchKnown(o.Viol); k != nil {
				sum.Known[k.Key]++
				sum.KnownWhat[k.Key] = k.What
				continue
			}
			rec := tape.Recorded()
			rf := &simrt.ReplayFile{Property: eng.Prop, Engine: eng.Name, Seed: w.Seed, Run: i, Tier: w.Tier, Class: o.Viol.Class, Key: o.Viol.Key, Message: o.Viol.Msg,
				Streams: rec, Trace: o.Viol.Trace, Faults: o.Viol.Faults, OrigLen: simrt.TapeLen(rec), GoVersion: runtime.Version(), Race: simrt.RaceBuild, Params: w.Params, Case: o.Desc}
			w.minimise(rf, i)
			path := fmt.Sprintf("%s/%s-%d-%d.json", replayDir, eng.Prop, w.Seed, i)
			if err := rf.Save(path); err != nil {
				fmt.Fprintln(os.Stderr, "cannot write replay:", err)
				os.Exit(2)
			}
			sum.Violations = append(sum.Violations, vioRec{Run: i, Class: rf.Class, Key: rf.Key, Msg: truncate(rf.Message, 2000), Replay: path})
			if len(sum.Violations) >= maxViol {
				sum.StoppedEarly = "violation limit reached"
				break
			}
		}
	}
	sum.Distinct = len(descs)
	sum.WallS = time.Since(start).Seconds()
	sum.EntropyBytes, sum.EntropyDraws = ebytes, edraws
	sum.MapSeamed, sum.MapUnseamed, sum.MapPermuted = simrt.MapStats()
	sum.Done = true
	writeSet(out+".il", inter)
	writeSet(out+".st", states)
	writeSet(out+".ds", descs)
	b, _ := json.Marshal(sum)
	if err := os.WriteFile(out, b, 0o644); err != nil {
		fmt.Fprintln(os.Stderr, "cannot write summary:", err)
		os.Exit(2)
	}
	os.Remove(progress)
}

func truncate(s string, n int) string {
	if len(s) > n {
		return s[:n] + "…"
	}
	return s
}

func hash64(s string) uint64 {
	h := uint64(14695981039346656037)
	for i := 0; i < len(s); i++ {
		h ^= uint64(s[i])
		h *= 1099511628211
	}
	return h
}

func writeSet(path string, m map[uint64]struct{}) {
	buf := make([]byte, 0, 8*len(m))
	for k := range m {
		buf = binary.LittleEndian.AppendUint64(buf, k)
	}
	os.WriteFile(path, buf, 0o644)
}

// minimise shrinks the replay tape while the same violation class at the same key persists.
func (w *Worker) minimise(rf *simrt.ReplayFile, run uint64) {
	budget := int(envU("VERIF_MINBUDGET", 150))
	order := w.Eng.StreamOrder
	if order == nil {
		order = []string{simrt.SFault, simrt.SSched, simrt.SMap, simrt.SIO, "pct", simrt.SWorkload}
	}
	same := func(streams map[string][]uint32) (bool, *Outcome) {
		tape := simrt.NewReplayTape(simrt.Mix(w.Seed, run), streams)
		w.SetEntropy(simrt.Mix(w.Seed, run)^0xe17, simrt.EntKeyed, 0)
		o := w.Eng.Run(w, tape)
		return o.Viol != nil && o.Viol.Class == rf.Class && o.Viol.Key == rf.Key, o
	}
	// the recorded tape itself must reproduce (determinism check)
	ok, _ := same(rf.Streams)
	if !ok {
		rf.Message += "\n[replay of the recorded tape in the same process did not reproduce the same class+key; not minimised]"
		rf.MinLen = rf.OrigLen
		return
	}
	deadline := time.Now().Add(time.Duration(envU("VERIF_MINBUDGET_S", 45)) * time.Second)
	min, _ := simrt.Minimise(rf.Streams, order, budget, func(c map[string][]uint32) bool {
		if time.Now().After(deadline) {
			return false
		}
		ok, _ := same(c)
		return ok
	})
	if ok, o := same(min); ok {
		rf.Streams = min
		rf.Minimised = true
		rf.Message = o.Viol.Msg
		rf.Trace = o.Viol.Trace
		rf.Faults = o.Viol.Faults
		rf.Case = o.Desc
	}
	rf.MinLen = simrt.TapeNonZero(rf.Streams)
}

// replay re-executes a replay file; exit status is communicated through the out file.
func (w *Worker) replay(path, out string) {
	rf, err := simrt.LoadReplay(path)
	if err != nil {
		fmt.Fprintln(os.Stderr, err)
		os.Exit(2)
	}
	for k, v := range rf.Params {
		if _, ok := w.Params[k]; !ok {
			w.Params[k] = v
		}
	}
	w.Seed = rf.Seed
	tape := simrt.NewReplayTape(simrt.Mix(rf.Seed, rf.Run), rf.Streams)
	w.SetEntropy(simrt.Mix(rf.Seed, rf.Run)^0xe17, simrt.EntKeyed, 0)
	o := w.Eng.Run(w, tape)
	res := map[string]any{"replayed": path, "expected_class": rf.Class, "expected_key": rf.Key}
	if o.Viol != nil {
		res["class"], res["key"], res["message"] = o.Viol.Class, o.Viol.Key, truncate(o.Viol.Msg, 4000)
		res["reproduced"] = o.Viol.Class == rf.Class && o.Viol.Key == rf.Key
		if k := w.matchKnown(o.Viol); k != nil {
			res["known"] = k.What
		}
	} else {
		res["reproduced"] = false
	}
	b, _ := json.Marshal(res)
	os.WriteFile(out, b, 0o644)
}
