package harness

import (
	"fmt"
	"math/big"
	"strings"

	"github.com/consensys/gnark-crypto/ecc"
	bls12377 "github.com/consensys/gnark-crypto/ecc/bls12-377"
	bls12381 "github.com/consensys/gnark-crypto/ecc/bls12-381"
	bn254 "github.com/consensys/gnark-crypto/ecc/bn254"
	tedwards "github.com/consensys/gnark-crypto/ecc/twistededwards"
	gchash "github.com/consensys/gnark-crypto/hash"
	eddsacrypto "github.com/consensys/gnark-crypto/signature/eddsa"
	"github.com/consensys/gnark/constraint/solver"
	"github.com/consensys/gnark/frontend"
	"github.com/consensys/gnark/std/algebra/algopts"
	"github.com/consensys/gnark/std/algebra/emulated/sw_bls12381"
	"github.com/consensys/gnark/std/algebra/emulated/sw_bn254"
	"github.com/consensys/gnark/std/algebra/emulated/sw_emulated"
	"github.com/consensys/gnark/std/algebra/native/sw_bls12377"
	"github.com/consensys/gnark/std/algebra/native/twistededwards"
	"github.com/consensys/gnark/std/evmprecompiles"
	mimcgadget "github.com/consensys/gnark/std/hash/mimc"
	"github.com/consensys/gnark/std/math/emulated"
	"github.com/consensys/gnark/std/signature/ecdsa"
	eddsagadget "github.com/consensys/gnark/std/signature/eddsa"
	"verifsim/simrt"
)

// C16: curve and signature gadgets under the hint nemesis. The hints these gadgets rely on
// (scalar decompositions, half-GCD, hinted scalar-multiplication results, pairing residue
// witnesses, recovered public keys) are answered by a byzantine prover; a satisfied circuit
// must still show the group element / verdict that an independent math/big reference (short
// Weierstrass and twisted Edwards affine arithmetic written here) or gnark-crypto computes.

// ---- reference arithmetic ---------------------------------------------------------------

type refCurve struct{ p, a, b, gx, gy, n *big.Int }
type refPt struct{ x, y *big.Int } // nil pointer = point at infinity

func (c *refCurve) mod(x *big.Int) *big.Int { return x.Mod(x, c.p) }

func (c *refCurve) add(P, Q *refPt) *refPt {
	if P == nil {
		return Q
	}
	if Q == nil {
		return P
	}
	var l *big.Int
	if P.x.Cmp(Q.x) == 0 {
		if new(big.Int).Mod(new(big.Int).Add(P.y, Q.y), c.p).Sign() == 0 {
			return nil
		}
		// 3x^2+a / 2y
		num := new(big.Int).Mul(P.x, P.x)
		num.Mul(num, big.NewInt(3)).Add(num, c.a)
		den := new(big.Int).Lsh(P.y, 1)
		den.ModInverse(c.mod(den), c.p)
		l = c.mod(num.Mul(num, den))
	} else {
		num := new(big.Int).Sub(Q.y, P.y)
		den := new(big.Int).Sub(Q.x, P.x)
		den.ModInverse(c.mod(den), c.p)
		l = c.mod(num.Mul(num, den))
	}
	x := new(big.Int).Mul(l, l)
	x.Sub(x, P.x).Sub(x, Q.x)
	c.mod(x)
	y := new(big.Int).Sub(P.x, x)
	y.Mul(y, l).Sub(y, P.y)
	c.mod(y)
	return &refPt{x, y}
}

func (c *refCurve) neg(P *refPt) *refPt {
	if P == nil {
		return nil
	}
	return &refPt{new(big.Int).Set(P.x), c.mod(new(big.Int).Neg(P.y))}
}

func (c *refCurve) mul(P *refPt, s *big.Int) *refPt {
	var R *refPt
	k := new(big.Int).Mod(s, c.n)
	for i := k.BitLen() - 1; i >= 0; i-- {
		R = c.add(R, R)
		if k.Bit(i) == 1 {
			R = c.add(R, P)
		}
	}
	return R
}

func (c *refCurve) gen() *refPt { return &refPt{c.gx, c.gy} }

// coordinates with the (0,0) convention for infinity
func (c *refCurve) xy(P *refPt) (*big.Int, *big.Int) {
	if P == nil {
		return new(big.Int), new(big.Int)
	}
	return P.x, P.y
}

func refOf[B, S emulated.FieldParams]() *refCurve {
	var b B
	var s S
	cp := sw_emulated.GetCurveParams[B]()
	return &refCurve{p: b.Modulus(), a: cp.A, b: cp.B, gx: cp.Gx, gy: cp.Gy, n: s.Modulus()}
}

// twisted Edwards a x^2 + y^2 = 1 + d x^2 y^2 (complete addition law)
type refTE struct{ q, a, d, order *big.Int }

func (c *refTE) add(x1, y1, x2, y2 *big.Int) (*big.Int, *big.Int) {
	m := func(x *big.Int) *big.Int { return x.Mod(x, c.q) }
	x1y2 := new(big.Int).Mul(x1, y2)
	y1x2 := new(big.Int).Mul(y1, x2)
	dxy := new(big.Int).Mul(x1y2, y1x2)
	m(dxy.Mul(m(dxy), c.d))
	nx := m(new(big.Int).Add(x1y2, y1x2))
	dx := m(new(big.Int).Add(big.NewInt(1), dxy))
	ny := new(big.Int).Mul(y1, y2)
	ny.Sub(ny, new(big.Int).Mul(c.a, new(big.Int).Mul(x1, x2)))
	m(ny)
	dy := m(new(big.Int).Sub(big.NewInt(1), dxy))
	dx.ModInverse(dx, c.q)
	dy.ModInverse(dy, c.q)
	return m(nx.Mul(nx, dx)), m(ny.Mul(ny, dy))
}

func (c *refTE) mul(x, y, s *big.Int) (*big.Int, *big.Int) {
	rx, ry := big.NewInt(0), big.NewInt(1)
	for i := s.BitLen() - 1; i >= 0; i-- {
		rx, ry = c.add(rx, ry, rx, ry)
		if s.Bit(i) == 1 {
			rx, ry = c.add(rx, ry, x, y)
		}
	}
	return rx, ry
}

// ---- emulated short Weierstrass ------------------------------------------------------------

type swCircuit[B, S emulated.FieldParams] struct {
	P, Q     sw_emulated.AffinePoint[B]
	S1, S2   emulated.Element[S]
	op       string
	complete bool
}

func (c *swCircuit[B, S]) Define(api frontend.API) error {
	cr, err := sw_emulated.New[B, S](api, sw_emulated.GetCurveParams[B]())
	if err != nil {
		return err
	}
	fb, err := emulated.NewField[B](api)
	if err != nil {
		return err
	}
	var opts []algopts.AlgebraOption
	if c.complete {
		opts = append(opts, algopts.WithCompleteArithmetic())
	}
	var R *sw_emulated.AffinePoint[B]
	switch c.op {
	case "mul":
		R = cr.ScalarMul(&c.P, &c.S1, opts...)
	case "mulbase":
		R = cr.ScalarMulBase(&c.S1, opts...)
	case "jointbase":
		R = cr.JointScalarMulBase(&c.P, &c.S2, &c.S1, opts...) // [S1]G + [S2]P
	case "msm":
		R, err = cr.MultiScalarMul([]*sw_emulated.AffinePoint[B]{&c.P, &c.Q}, []*emulated.Element[S]{&c.S1, &c.S2}, opts...)
		if err != nil {
			return err
		}
	case "addunified":
		R = cr.AddUnified(&c.P, &c.Q)
	case "add":
		R = cr.Add(&c.P, &c.Q)
	}
	x, y := fb.ReduceStrict(&R.X), fb.ReduceStrict(&R.Y)
	probe(api, 1, x.Limbs...)
	probe(api, 2, y.Limbs...)
	return nil
}

func recompose(limbs []*big.Int, nbits uint) *big.Int {
	r := new(big.Int)
	for i := len(limbs) - 1; i >= 0; i-- {
		r.Lsh(r, nbits).Or(r, limbs[i])
	}
	return r
}

// focusCurveHints: the hints of the curve / pairing / signature gadgets themselves. The
// arithmetic hints below them (emulated field arithmetic: C12; extension-field division and
// inversion, each checked by one multiplication) are not fault sites of this property.
func focusCurveHints(name string) bool {
	for _, pkg := range []string{"/sw_emulated.", "/sw_bn254.", "/sw_bls12381.", "/sw_bw6761.", "/sw_bls12377.", "/sw_bls24315.", "/native/twistededwards.", "/evmprecompiles."} {
		if strings.Contains(name, pkg) {
			return true
		}
	}
	return false
}

// classifyCurve names the faulted hint and says whether the accepted wrong answer relies on
// a sub-scalar of a decomposition hint that is wider than anything the honest hint returns.
func classifyCurve(honest, faulted []hintCall, planned map[int]bool, q *big.Int) string {
	best := "?"
	for _, idx := range sortedKeys(planned) {
		if idx >= len(faulted) || idx >= len(honest) {
			continue
		}
		c, h := faulted[idx], honest[idx]
		short := c.Name[strings.LastIndex(c.Name, ".")+1:]
		switch short {
		case "decomposeScalarG1Subscalars", "halfGCD", "halfGCDEisenstein":
		default:
			if best == "?" {
				best = short
			}
			continue
		}
		nbits, nl, _, ok := emuLayout(c.In, c.Out)
		if !ok || len(h.Out) != len(c.Out) {
			best = short
			continue
		}
		hmax := 0
		for k := 0; k+nl <= len(h.Out); k += nl {
			if b := recompose(h.Out[k:k+nl], nbits).BitLen(); b > hmax {
				hmax = b
			}
		}
		wide := false
		for k := 0; k+nl <= len(c.Out); k += nl {
			if recompose(c.Out[k:k+nl], nbits).BitLen() > hmax+8 && recompose(c.Out[k:k+nl], nbits).BitLen() > int(nbits)*nl/2+12 {
				wide = true
			}
		}
		if wide {
			return short + ":subscalar-out-of-range"
		}
		best = short + ":subscalars-in-range"
	}
	return best
}

func drawScalar(tape *simrt.Tape, n *big.Int, edges bool) *big.Int {
	if edges {
		switch tape.Choose(simrt.SWorkload, 8) {
		case 0:
			return big.NewInt(0)
		case 1:
			return big.NewInt(1)
		case 2:
			return new(big.Int).Sub(n, big.NewInt(1))
		case 3:
			return big.NewInt(2)
		case 4:
			return new(big.Int).Set(n) // the order itself: the one over-sized value a witness element can carry
		}
	}
	// bounded: a minimised tape answers 0 for ever
	for try := 0; try < 4; try++ {
		v := drawValue(tape, n)
		if v.Sign() != 0 && v.Cmp(big.NewInt(3)) > 0 && v.Cmp(new(big.Int).Sub(n, big.NewInt(3))) < 0 {
			return v
		}
	}
	return big.NewInt(0x1234567)
}

func swCase[B, S emulated.FieldParams](cname, op string, complete bool) *gcase {
	rc := refOf[B, S]()
	var bp B
	nb := bp.BitsPerLimb()
	mk := func() *swCircuit[B, S] { return &swCircuit[B, S]{op: op, complete: complete} }
	name := fmt.Sprintf("sw/%s/%s", cname, op)
	if complete {
		name += "/complete"
	}
	return &gcase{
		Name: name, Circuit: mk(), EngineOnly: true, MaxFaults: 6, Focus: focusCurveHints, FocusOnly: true, Combo: true, Classify: classifyCurve,
		Assign: func(tape *simrt.Tape, q *big.Int) (frontend.Circuit, bool, func(map[int][]*big.Int) string, string) {
			c := mk()
			// points: multiples of the generator; with complete arithmetic also infinity, P = +-Q
			k1 := drawScalar(tape, rc.n, false)
			k2 := drawScalar(tape, rc.n, false)
			P, Q := rc.mul(rc.gen(), k1), rc.mul(rc.gen(), k2)
			s1, s2 := drawScalar(tape, rc.n, complete), drawScalar(tape, rc.n, complete)
			if complete || op == "addunified" {
				switch tape.Choose(simrt.SWorkload, 8) {
				case 0:
					if op != "jointbase" {
						P = nil
					}
				case 1:
					Q = rc.neg(P)
				case 2:
					Q = P
				case 3:
					if op == "addunified" {
						Q = nil
					}
				}
			}
			if op == "addunified" {
				// special points of the curve itself: abscissa 0 exists whenever b is a square
				// (P-256, P-384, BLS12-381), and is an ordinary point there, not infinity
				if y0 := new(big.Int).ModSqrt(new(big.Int).Mod(rc.b, rc.p), rc.p); y0 != nil {
					z := &refPt{big.NewInt(0), y0}
					switch tape.Choose(simrt.SWorkload, 6) {
					case 0:
						P = z
					case 1:
						Q = z
					case 2:
						P, Q = z, rc.neg(z)
					case 3:
						P, Q = z, z
					}
				}
			}
			if op == "add" && (P == nil || Q == nil || P.x.Cmp(Q.x) == 0) {
				Q = rc.add(rc.add(P, P), rc.gen())
			}
			var want *refPt
			switch op {
			case "mul":
				want = rc.mul(P, s1)
			case "mulbase":
				want = rc.mul(rc.gen(), s1)
			case "jointbase":
				want = rc.add(rc.mul(rc.gen(), s1), rc.mul(P, s2))
			case "msm":
				want = rc.add(rc.mul(P, s1), rc.mul(Q, s2))
			case "addunified", "add":
				want = rc.add(P, Q)
			}
			px, py := rc.xy(P)
			qx, qy := rc.xy(Q)
			c.P = sw_emulated.AffinePoint[B]{X: emulated.ValueOf[B](px), Y: emulated.ValueOf[B](py)}
			c.Q = sw_emulated.AffinePoint[B]{X: emulated.ValueOf[B](qx), Y: emulated.ValueOf[B](qy)}
			c.S1, c.S2 = emulated.ValueOf[S](s1), emulated.ValueOf[S](s2)
			wx, wy := rc.xy(want)
			// without complete arithmetic the documentation excludes a zero scalar, (0,0) points
			// and (for the joint forms) intermediate collisions; those inputs are not drawn, and
			// a result at infinity is outside the domain
			free := !complete && op != "addunified" && want == nil
			check := func(p map[int][]*big.Int) string {
				if free {
					return ""
				}
				if len(p[1]) == 0 || len(p[2]) == 0 {
					return "result not probed"
				}
				gx, gy := recompose(p[1], nb), recompose(p[2], nb)
				if gx.Cmp(wx) != 0 || gy.Cmp(wy) != 0 {
					return fmt.Sprintf("result point (%s, %s), expected (%s, %s)", gx.Text(16), gy.Text(16), wx.Text(16), wy.Text(16))
				}
				return ""
			}
			desc := fmt.Sprintf("P=[%s]G%v Q=[%s]G%v s1=%s s2=%s", k1.Text(16), P == nil, k2.Text(16), Q == nil, s1.Text(16), s2.Text(16))
			if new(big.Int).Add(s1, big.NewInt(1)).Cmp(rc.n) == 0 {
				desc = "edge[s=r-1] " + desc
			} else if s1.Cmp(rc.n) == 0 {
				desc = "edge[s=r] " + desc
			}
			if free {
				desc = "free-verdict:" + desc
			}
			return c, true, check, desc
		},
	}
}

// ---- ECDSA ---------------------------------------------------------------------------------

type ecdsaCircuit[B, S emulated.FieldParams] struct {
	Sig ecdsa.Signature[S]
	Msg emulated.Element[S]
	Pub ecdsa.PublicKey[B, S]
}

func (c *ecdsaCircuit[B, S]) Define(api frontend.API) error {
	c.Pub.Verify(api, sw_emulated.GetCurveParams[B](), &c.Msg, &c.Sig)
	return nil
}

func (rc *refCurve) ecdsaVerify(pub *refPt, m, r, s *big.Int) bool {
	if r.Sign() == 0 || s.Sign() == 0 || r.Cmp(rc.n) >= 0 || s.Cmp(rc.n) >= 0 || pub == nil {
		return false
	}
	si := new(big.Int).ModInverse(s, rc.n)
	u1 := new(big.Int).Mul(m, si)
	u2 := new(big.Int).Mul(r, si)
	X := rc.add(rc.mul(rc.gen(), u1.Mod(u1, rc.n)), rc.mul(pub, u2.Mod(u2, rc.n)))
	if X == nil {
		return false
	}
	// the gadget compares the bits of r with the bits of X.x (no reduction modulo n)
	return X.x.Cmp(r) == 0
}

func ecdsaCase[B, S emulated.FieldParams](cname string) *gcase {
	rc := refOf[B, S]()
	mk := func() *ecdsaCircuit[B, S] { return &ecdsaCircuit[B, S]{} }
	return &gcase{
		Name: "ecdsa/" + cname, Circuit: mk(), EngineOnly: true, MaxFaults: 6, Focus: focusCurveHints, FocusOnly: true, Combo: true, Classify: classifyCurve,
		Assign: func(tape *simrt.Tape, q *big.Int) (frontend.Circuit, bool, func(map[int][]*big.Int) string, string) {
			d := drawScalar(tape, rc.n, false)
			pub := rc.mul(rc.gen(), d)
			m := drawScalar(tape, rc.n, false)
			var r, s *big.Int
			for try := int64(0); ; try++ {
				k := drawScalar(tape, rc.n, false)
				k.Add(k, big.NewInt(try))
				R := rc.mul(rc.gen(), k)
				r = new(big.Int).Set(R.x)
				if r.Cmp(rc.n) >= 0 {
					continue // negligible; the gadget documents r as the x coordinate itself
				}
				s = new(big.Int).Mul(r, d)
				s.Add(s, m).Mul(s, new(big.Int).ModInverse(k, rc.n)).Mod(s, rc.n)
				if s.Sign() != 0 {
					break
				}
			}
			kind := tape.Choose(simrt.SWorkload, 6)
			one := big.NewInt(1)
			switch kind {
			case 1:
				m = new(big.Int).Add(m, one)
				m.Mod(m, rc.n)
			case 2:
				r = new(big.Int).Add(r, one)
				r.Mod(r, rc.n)
			case 3:
				s = new(big.Int).Add(s, one)
				s.Mod(s, rc.n)
			case 4:
				pub = rc.mul(rc.gen(), new(big.Int).Add(d, one))
			}
			if r.Sign() == 0 || s.Sign() == 0 || m.Sign() == 0 {
				kind, m = 1, big.NewInt(5)
			}
			sat := rc.ecdsaVerify(pub, m, r, s)
			c := mk()
			c.Sig = ecdsa.Signature[S]{R: emulated.ValueOf[S](r), S: emulated.ValueOf[S](s)}
			c.Msg = emulated.ValueOf[S](m)
			c.Pub = ecdsa.PublicKey[B, S]{X: emulated.ValueOf[B](pub.x), Y: emulated.ValueOf[B](pub.y)}
			return c, sat, func(map[int][]*big.Int) string { return "" }, fmt.Sprintf("kind=%d valid=%v d=%s m=%s", kind, sat, d.Text(16), m.Text(16))
		},
	}
}

// ---- ECRecover -----------------------------------------------------------------------------

type ecrecoverCircuit struct {
	Msg       emulated.Element[emulated.Secp256k1Fr]
	V         frontend.Variable
	R, S      emulated.Element[emulated.Secp256k1Fr]
	Strict    frontend.Variable
	IsFailure frontend.Variable
}

func (c *ecrecoverCircuit) Define(api frontend.API) error {
	fb, err := emulated.NewField[emulated.Secp256k1Fp](api)
	if err != nil {
		return err
	}
	P := evmprecompiles.ECRecover(api, c.Msg, c.V, c.R, c.S, c.Strict, c.IsFailure)
	x, y := fb.ReduceStrict(&P.X), fb.ReduceStrict(&P.Y)
	probe(api, 1, x.Limbs...)
	probe(api, 2, y.Limbs...)
	return nil
}

func ecrecoverCase() *gcase {
	rc := refOf[emulated.Secp256k1Fp, emulated.Secp256k1Fr]()
	mk := func() *ecrecoverCircuit { return &ecrecoverCircuit{} }
	return &gcase{
		Name: "ecrecover", Circuit: mk(), EngineOnly: true, MaxFaults: 6, Focus: focusCurveHints, FocusOnly: true, Combo: true, Classify: classifyCurve,
		Assign: func(tape *simrt.Tape, q *big.Int) (frontend.Circuit, bool, func(map[int][]*big.Int) string, string) {
			d := drawScalar(tape, rc.n, false)
			pub := rc.mul(rc.gen(), d)
			m := drawScalar(tape, rc.n, false)
			var r, s *big.Int
			var v int64
			for try := int64(0); ; try++ {
				k := drawScalar(tape, rc.n, false)
				k.Add(k, big.NewInt(try))
				R := rc.mul(rc.gen(), k)
				if R.x.Cmp(rc.n) >= 0 {
					continue
				}
				r = new(big.Int).Set(R.x)
				s = new(big.Int).Mul(r, d)
				s.Add(s, m).Mul(s, new(big.Int).ModInverse(k, rc.n)).Mod(s, rc.n)
				v = int64(R.y.Bit(0))
				if s.Sign() != 0 {
					break
				}
			}
			// claimed outcome: honest (failure flag 0, the signer's key) or a wrong claim
			kind := tape.Choose(simrt.SWorkload, 4)
			isFailure := int64(0)
			strict := int64(0)
			half := new(big.Int).Rsh(rc.n, 1)
			sat := true
			switch kind {
			case 1:
				isFailure = 1 // a valid signature claimed to fail: must be unsatisfiable
				sat = false
			case 2:
				strict = 1
				sat = s.Cmp(half) <= 0
			}
			c := mk()
			c.Msg, c.R, c.S = emulated.ValueOf[emulated.Secp256k1Fr](m), emulated.ValueOf[emulated.Secp256k1Fr](r), emulated.ValueOf[emulated.Secp256k1Fr](s)
			c.V, c.Strict, c.IsFailure = 27+v, strict, isFailure
			check := func(p map[int][]*big.Int) string {
				gx, gy := recompose(p[1], 64), recompose(p[2], 64)
				if gx.Cmp(pub.x) != 0 || gy.Cmp(pub.y) != 0 {
					return fmt.Sprintf("recovered key (%s, %s), expected the signer's key (%s, %s)", gx.Text(16), gy.Text(16), pub.x.Text(16), pub.y.Text(16))
				}
				return ""
			}
			return c, sat, check, fmt.Sprintf("kind=%d d=%s m=%s", kind, d.Text(16), m.Text(16))
		},
	}
}

// ---- native twisted Edwards ----------------------------------------------------------------

type teCircuit struct {
	P, Q   twistededwards.Point
	S1, S2 frontend.Variable
	op     string
	id     tedwards.ID
}

func (c *teCircuit) Define(api frontend.API) error {
	cv, err := twistededwards.NewEdCurve(api, c.id)
	if err != nil {
		return err
	}
	var R twistededwards.Point
	switch c.op {
	case "mul":
		R = cv.ScalarMul(c.P, c.S1)
	case "doublebase":
		R = cv.DoubleBaseScalarMul(c.P, c.Q, c.S1, c.S2)
	case "add":
		R = cv.Add(c.P, c.Q)
	}
	probe(api, 1, R.X, R.Y)
	return nil
}

func teCase(id tedwards.ID, idName string, native ecc.ID, op string) *gcase {
	params, err := twistededwards.GetCurveParams(id)
	if err != nil {
		panic(err)
	}
	rc := &refTE{q: native.ScalarField(), a: params.A, d: params.D, order: params.Order}
	mk := func() *teCircuit { return &teCircuit{op: op, id: id} }
	return &gcase{
		Name: fmt.Sprintf("tedwards/%s/%s", idName, op), Circuit: mk(), MaxFaults: 16, Focus: focusCurveHints, FocusOnly: true, Combo: true,
		Field: &sField{Name: native.String(), Q: native.ScalarField(), Curve: native},
		Assign: func(tape *simrt.Tape, q *big.Int) (frontend.Circuit, bool, func(map[int][]*big.Int) string, string) {
			k1, k2 := drawScalar(tape, rc.order, true), drawScalar(tape, rc.order, false)
			px, py := rc.mul(params.Base[0], params.Base[1], k1)
			qx, qy := rc.mul(params.Base[0], params.Base[1], k2)
			// scalars: anything below the group order, edges included (0, 1, order-1, order)
			s1, s2 := drawScalar(tape, rc.order, true), drawScalar(tape, rc.order, true)
			// over-sized scalars: any element of the native field is a legal scalar
			switch tape.Choose(simrt.SWorkload, 6) {
			case 0:
				s1 = new(big.Int).Sub(q, big.NewInt(1))
			case 1:
				s1 = new(big.Int).Lsh(big.NewInt(1), uint(rc.order.BitLen()))
				s1.Add(s1, big.NewInt(int64(tape.Choose(simrt.SWorkload, 9))))
				s1.Mod(s1, q)
			case 2:
				s1 = new(big.Int).Mul(rc.order, big.NewInt(int64(2+tape.Choose(simrt.SWorkload, 3))))
				s1.Add(s1, big.NewInt(int64(tape.Choose(simrt.SWorkload, 9))))
				s1.Mod(s1, q)
			case 3:
				s1, s2 = drawValue(tape, q), drawValue(tape, q)
			}
			var wx, wy *big.Int
			switch op {
			case "mul":
				wx, wy = rc.mul(px, py, s1)
			case "doublebase":
				ax, ay := rc.mul(px, py, s1)
				bx, by := rc.mul(qx, qy, s2)
				wx, wy = rc.add(ax, ay, bx, by)
			case "add":
				wx, wy = rc.add(px, py, qx, qy)
			}
			c := mk()
			c.P, c.Q = twistededwards.Point{X: px, Y: py}, twistededwards.Point{X: qx, Y: qy}
			c.S1, c.S2 = s1, s2
			check := func(p map[int][]*big.Int) string { return eqInts(p[1], wx, wy) }
			return c, true, check, fmt.Sprintf("P=[%s]B Q=[%s]B s1=%s s2=%s", k1.Text(16), k2.Text(16), s1.Text(16), s2.Text(16))
		},
	}
}

// ---- native two-chain: BLS12-377 G1 inside BW6-761 -----------------------------------------

type g1NativeCircuit struct {
	P        sw_bls12377.G1Affine
	S        frontend.Variable
	op       string
	complete bool
}

func (c *g1NativeCircuit) Define(api frontend.API) error {
	var opts []algopts.AlgebraOption
	if c.complete {
		opts = append(opts, algopts.WithCompleteArithmetic())
	}
	var R sw_bls12377.G1Affine
	switch c.op {
	case "mul":
		R.ScalarMul(api, c.P, c.S, opts...)
	case "mulbase":
		R.ScalarMulBase(api, c.S, opts...)
	}
	probe(api, 1, R.X, R.Y)
	return nil
}

func g1NativeCase(op string, complete bool) *gcase {
	mk := func() *g1NativeCircuit { return &g1NativeCircuit{op: op, complete: complete} }
	name := "sw_bls12377/" + op
	if complete {
		name += "/complete"
	}
	r := ecc.BLS12_377.ScalarField()
	return &gcase{
		Name: name, Circuit: mk(), EngineOnly: true, MaxFaults: 10, Focus: focusCurveHints, FocusOnly: true, Combo: true,
		Field: &sField{Name: "bw6_761", Q: ecc.BW6_761.ScalarField(), Curve: ecc.BW6_761},
		Assign: func(tape *simrt.Tape, q *big.Int) (frontend.Circuit, bool, func(map[int][]*big.Int) string, string) {
			_, _, g1, _ := bls12377.Generators()
			k := drawScalar(tape, r, false)
			var P bls12377.G1Affine
			P.ScalarMultiplication(&g1, k)
			s := drawScalar(tape, r, complete)
			inf := false
			if complete && op == "mul" && tape.Choose(simrt.SWorkload, 6) == 0 {
				P.X.SetZero()
				P.Y.SetZero()
				inf = true
			}
			var W bls12377.G1Affine
			if op == "mulbase" {
				W.ScalarMultiplication(&g1, s)
			} else {
				W.ScalarMultiplication(&P, s)
			}
			c := mk()
			c.P.Assign(&P)
			c.S = s
			wx, wy := W.X.BigInt(new(big.Int)), W.Y.BigInt(new(big.Int))
			check := func(p map[int][]*big.Int) string { return eqInts(p[1], wx, wy) }
			return c, true, check, fmt.Sprintf("P=[%s]G inf=%v s=%s", k.Text(16), inf, s.Text(16))
		},
	}
}

type pairNativeCircuit struct {
	P        [2]sw_bls12377.G1Affine
	Q        [2]sw_bls12377.G2Affine
	finalExp bool
}

func (c *pairNativeCircuit) Define(api frontend.API) error {
	if c.finalExp {
		ml, err := sw_bls12377.MillerLoop(api, c.P[:], c.Q[:])
		if err != nil {
			return err
		}
		ml.AssertFinalExponentiationIsOne(api)
		return nil
	}
	return sw_bls12377.PairingCheck(api, c.P[:], c.Q[:])
}

func pairNativeCase(finalExp bool) *gcase {
	mk := func() *pairNativeCircuit { return &pairNativeCircuit{finalExp: finalExp} }
	r := ecc.BLS12_377.ScalarField()
	name := "sw_bls12377/pairingcheck"
	if finalExp {
		name = "sw_bls12377/finalexp-is-one"
	}
	return &gcase{
		Name: name, Circuit: mk(), EngineOnly: true, MaxFaults: 8, Focus: focusCurveHints, FocusOnly: true, Combo: true,
		Field: &sField{Name: "bw6_761", Q: ecc.BW6_761.ScalarField(), Curve: ecc.BW6_761},
		Assign: func(tape *simrt.Tape, q *big.Int) (frontend.Circuit, bool, func(map[int][]*big.Int) string, string) {
			_, _, g1, g2 := bls12377.Generators()
			a, b := drawScalar(tape, r, false), drawScalar(tape, r, false)
			ab := new(big.Int).Mul(a, b)
			ab.Mod(ab, r)
			kind := tape.Choose(simrt.SWorkload, 3)
			if kind == 1 {
				ab.Add(ab, big.NewInt(1))
			}
			var P0, P1 bls12377.G1Affine
			var Q0 bls12377.G2Affine
			P0.ScalarMultiplication(&g1, a)
			Q0.ScalarMultiplication(&g2, b)
			P1.ScalarMultiplication(&g1, ab)
			P1.Neg(&P1)
			if kind == 2 {
				Q0.ScalarMultiplication(&g2, new(big.Int).Add(b, big.NewInt(1)))
			}
			ok, err := bls12377.PairingCheck([]bls12377.G1Affine{P0, P1}, []bls12377.G2Affine{Q0, g2})
			sat := err == nil && ok
			c := mk()
			c.P[0].Assign(&P0)
			c.P[1].Assign(&P1)
			c.Q[0] = sw_bls12377.NewG2Affine(Q0)
			c.Q[1] = sw_bls12377.NewG2Affine(g2)
			return c, sat, func(map[int][]*big.Int) string { return "" }, fmt.Sprintf("kind=%d holds=%v a=%s b=%s", kind, sat, a.Text(16), b.Text(16))
		},
	}
}

// ---- emulated BN254 pairing check ----------------------------------------------------------

type pairEmuCircuit struct {
	P        [2]sw_bn254.G1Affine
	Q        [2]sw_bn254.G2Affine
	finalExp bool
}

func (c *pairEmuCircuit) Define(api frontend.API) error {
	pr, err := sw_bn254.NewPairing(api)
	if err != nil {
		return err
	}
	if c.finalExp {
		ml, err := pr.MillerLoop([]*sw_bn254.G1Affine{&c.P[0], &c.P[1]}, []*sw_bn254.G2Affine{&c.Q[0], &c.Q[1]})
		if err != nil {
			return err
		}
		pr.AssertFinalExponentiationIsOne(ml)
		return nil
	}
	return pr.PairingCheck([]*sw_bn254.G1Affine{&c.P[0], &c.P[1]}, []*sw_bn254.G2Affine{&c.Q[0], &c.Q[1]})
}

func pairEmuCase(finalExp bool) *gcase {
	mk := func() *pairEmuCircuit { return &pairEmuCircuit{finalExp: finalExp} }
	r := ecc.BN254.ScalarField()
	name := "sw_bn254/pairingcheck"
	if finalExp {
		name = "sw_bn254/finalexp-is-one"
	}
	return &gcase{
		Name: name, Circuit: mk(), EngineOnly: true, MaxFaults: 3, Focus: focusCurveHints, FocusOnly: true, Combo: true,
		Assign: func(tape *simrt.Tape, q *big.Int) (frontend.Circuit, bool, func(map[int][]*big.Int) string, string) {
			_, _, g1, g2 := bn254.Generators()
			a, b := drawScalar(tape, r, false), drawScalar(tape, r, false)
			ab := new(big.Int).Mul(a, b)
			ab.Mod(ab, r)
			kind := tape.Choose(simrt.SWorkload, 3)
			if kind == 1 {
				ab.Add(ab, big.NewInt(1))
			}
			var P0, P1 bn254.G1Affine
			var Q0 bn254.G2Affine
			P0.ScalarMultiplication(&g1, a)
			Q0.ScalarMultiplication(&g2, b)
			P1.ScalarMultiplication(&g1, ab)
			P1.Neg(&P1)
			if kind == 2 {
				Q0.ScalarMultiplication(&g2, new(big.Int).Add(b, big.NewInt(1)))
			}
			ok, err := bn254.PairingCheck([]bn254.G1Affine{P0, P1}, []bn254.G2Affine{Q0, g2})
			sat := err == nil && ok
			c := mk()
			c.P[0], c.P[1] = sw_bn254.NewG1Affine(P0), sw_bn254.NewG1Affine(P1)
			c.Q[0], c.Q[1] = sw_bn254.NewG2Affine(Q0), sw_bn254.NewG2Affine(g2)
			return c, sat, func(map[int][]*big.Int) string { return "" }, fmt.Sprintf("kind=%d holds=%v a=%s b=%s", kind, sat, a.Text(16), b.Text(16))
		},
	}
}

// ---- emulated BLS12-381 pairing check -------------------------------------------------------

type pairEmu381Circuit struct {
	P        [2]sw_bls12381.G1Affine
	Q        [2]sw_bls12381.G2Affine
	finalExp bool
}

func (c *pairEmu381Circuit) Define(api frontend.API) error {
	pr, err := sw_bls12381.NewPairing(api)
	if err != nil {
		return err
	}
	if c.finalExp {
		ml, err := pr.MillerLoop([]*sw_bls12381.G1Affine{&c.P[0], &c.P[1]}, []*sw_bls12381.G2Affine{&c.Q[0], &c.Q[1]})
		if err != nil {
			return err
		}
		pr.AssertFinalExponentiationIsOne(ml)
		return nil
	}
	return pr.PairingCheck([]*sw_bls12381.G1Affine{&c.P[0], &c.P[1]}, []*sw_bls12381.G2Affine{&c.Q[0], &c.Q[1]})
}

func pairEmu381Case(finalExp bool) *gcase {
	mk := func() *pairEmu381Circuit { return &pairEmu381Circuit{finalExp: finalExp} }
	r := ecc.BLS12_381.ScalarField()
	name := "sw_bls12381/pairingcheck"
	if finalExp {
		name = "sw_bls12381/finalexp-is-one"
	}
	return &gcase{
		Name: name, Circuit: mk(), EngineOnly: true, MaxFaults: 3, Focus: focusCurveHints, FocusOnly: true, Combo: true,
		Assign: func(tape *simrt.Tape, q *big.Int) (frontend.Circuit, bool, func(map[int][]*big.Int) string, string) {
			_, _, g1, g2 := bls12381.Generators()
			a, b := drawScalar(tape, r, false), drawScalar(tape, r, false)
			ab := new(big.Int).Mul(a, b)
			ab.Mod(ab, r)
			kind := tape.Choose(simrt.SWorkload, 3)
			if kind == 1 {
				ab.Add(ab, big.NewInt(1))
			}
			var P0, P1 bls12381.G1Affine
			var Q0 bls12381.G2Affine
			P0.ScalarMultiplication(&g1, a)
			Q0.ScalarMultiplication(&g2, b)
			P1.ScalarMultiplication(&g1, ab)
			P1.Neg(&P1)
			if kind == 2 {
				Q0.ScalarMultiplication(&g2, new(big.Int).Add(b, big.NewInt(1)))
			}
			ok, err := bls12381.PairingCheck([]bls12381.G1Affine{P0, P1}, []bls12381.G2Affine{Q0, g2})
			sat := err == nil && ok
			c := mk()
			c.P[0], c.P[1] = sw_bls12381.NewG1Affine(P0), sw_bls12381.NewG1Affine(P1)
			c.Q[0], c.Q[1] = sw_bls12381.NewG2Affine(Q0), sw_bls12381.NewG2Affine(g2)
			return c, sat, func(map[int][]*big.Int) string { return "" }, fmt.Sprintf("kind=%d holds=%v a=%s b=%s", kind, sat, a.Text(16), b.Text(16))
		},
	}
}

// ---- EVM pairing precompile (BN254): fixed circuits MillerLoopAndMul + MillerLoopAndFinalExpCheck

type ecpairCircuit struct {
	P [2]sw_bn254.G1Affine
	Q [2]sw_bn254.G2Affine
}

func (c *ecpairCircuit) Define(api frontend.API) error {
	evmprecompiles.ECPair(api, []*sw_bn254.G1Affine{&c.P[0], &c.P[1]}, []*sw_bn254.G2Affine{&c.Q[0], &c.Q[1]})
	return nil
}

func ecpairCase() *gcase {
	mk := func() *ecpairCircuit { return &ecpairCircuit{} }
	r := ecc.BN254.ScalarField()
	return &gcase{
		Name: "evm/ecpair", Circuit: mk(), EngineOnly: true, MaxFaults: 3, Focus: focusCurveHints, FocusOnly: true, Combo: true,
		Assign: func(tape *simrt.Tape, q *big.Int) (frontend.Circuit, bool, func(map[int][]*big.Int) string, string) {
			_, _, g1, g2 := bn254.Generators()
			a, b := drawScalar(tape, r, false), drawScalar(tape, r, false)
			ab := new(big.Int).Mul(a, b)
			ab.Mod(ab, r)
			kind := tape.Choose(simrt.SWorkload, 3)
			if kind == 1 {
				ab.Add(ab, big.NewInt(1))
			}
			var P0, P1 bn254.G1Affine
			var Q0 bn254.G2Affine
			P0.ScalarMultiplication(&g1, a)
			Q0.ScalarMultiplication(&g2, b)
			P1.ScalarMultiplication(&g1, ab)
			P1.Neg(&P1)
			if kind == 2 {
				Q0.ScalarMultiplication(&g2, new(big.Int).Add(b, big.NewInt(1)))
			}
			ok, err := bn254.PairingCheck([]bn254.G1Affine{P0, P1}, []bn254.G2Affine{Q0, g2})
			sat := err == nil && ok
			c := mk()
			c.P[0], c.P[1] = sw_bn254.NewG1Affine(P0), sw_bn254.NewG1Affine(P1)
			c.Q[0], c.Q[1] = sw_bn254.NewG2Affine(Q0), sw_bn254.NewG2Affine(g2)
			return c, sat, func(map[int][]*big.Int) string { return "" }, fmt.Sprintf("kind=%d holds=%v a=%s b=%s", kind, sat, a.Text(16), b.Text(16))
		},
	}
}

// ---- EdDSA over the native twisted Edwards curve (no hint below it since the generic ladder:
// the honest verdict against gnark-crypto is the whole check) --------------------------------

type eddsaCircuit struct {
	Pub eddsagadget.PublicKey
	Sig eddsagadget.Signature
	Msg frontend.Variable
}

func (c *eddsaCircuit) Define(api frontend.API) error {
	cv, err := twistededwards.NewEdCurve(api, tedwards.BN254)
	if err != nil {
		return err
	}
	h, err := mimcgadget.NewMiMC(api)
	if err != nil {
		return err
	}
	return eddsagadget.Verify(cv, c.Sig, c.Msg, c.Pub, &h)
}

type tapeReader struct{ tape *simrt.Tape }

func (r tapeReader) Read(p []byte) (int, error) {
	for i := range p {
		p[i] = byte(r.tape.Raw(simrt.SWorkload))
	}
	return len(p), nil
}

func eddsaCase() *gcase {
	mk := func() *eddsaCircuit { return &eddsaCircuit{} }
	f := sField{Name: "bn254", Q: ecc.BN254.ScalarField(), Curve: ecc.BN254}
	return &gcase{
		Name: "eddsa/bn254", Circuit: mk(), MaxFaults: 4, Focus: focusCurveHints, FocusOnly: true, Field: &f,
		Assign: func(tape *simrt.Tape, q *big.Int) (frontend.Circuit, bool, func(map[int][]*big.Int) string, string) {
			priv, err := eddsacrypto.New(tedwards.BN254, tapeReader{tape})
			if err != nil {
				panic(err)
			}
			other, _ := eddsacrypto.New(tedwards.BN254, tapeReader{tape})
			msg := drawValue(tape, q)
			pad := func(m *big.Int) []byte {
				b := make([]byte, len(q.Bytes()))
				m.FillBytes(b)
				return b
			}
			sig, err := priv.Sign(pad(msg), gchash.MIMC_BN254.New())
			if err != nil {
				panic(err)
			}
			pub := priv.Public()
			kind := tape.Choose(simrt.SWorkload, 5)
			vmsg := new(big.Int).Set(msg)
			switch kind {
			case 1:
				vmsg.Add(vmsg, big.NewInt(1)).Mod(vmsg, q)
			case 2:
				pub = other.Public()
			case 3: // the signature of another message (reduced: the MiMC hasher refuses non-reduced blocks)
				m2 := new(big.Int).Add(msg, big.NewInt(7))
				if s2, err := priv.Sign(pad(m2.Mod(m2, q)), gchash.MIMC_BN254.New()); err == nil && len(s2) == len(sig) {
					sig = s2
				} else {
					kind = 0
				}
			case 4: // S altered in its last byte
				sig = append([]byte{}, sig...)
				sig[len(sig)-1] ^= 1
			}
			ok, verr := pub.Verify(sig, pad(vmsg), gchash.MIMC_BN254.New())
			sat := verr == nil && ok
			c := mk()
			c.Msg = vmsg
			c.Pub.Assign(tedwards.BN254, pub.Bytes())
			c.Sig.Assign(tedwards.BN254, sig)
			return c, sat, func(map[int][]*big.Int) string { return "" }, fmt.Sprintf("kind=%d valid=%v msg=%s", kind, sat, msg.Text(16))
		},
	}
}

// ---- element-level strategy for emulated hints ---------------------------------------------

// emuLayout recognises the wrapper format of emulated hints (std/math/emulated/field_hint.go):
// in[0] = bits per limb, in[1] = number of limbs, in[2:2+nbLimbs] = modulus limbs; outputs are
// whole elements of nbLimbs limbs each.
func emuLayout(in, out []*big.Int) (nbits uint, nl int, p *big.Int, ok bool) {
	if len(in) < 3 || !in[0].IsInt64() || !in[1].IsInt64() {
		return
	}
	b, l := in[0].Int64(), in[1].Int64()
	if b < 8 || b > 128 || l < 1 || l > 16 || len(in) < int(2+l) || len(out) == 0 || len(out)%int(l) != 0 {
		return
	}
	p = recompose(in[2:2+l], uint(b))
	if p.BitLen() < 16 {
		return
	}
	return uint(b), int(l), p, true
}

func init() {
	strategies = append(strategies, strategy{"emulated-element", func(tape *simrt.Tape) func(*nemesis, int, solver.Hint, *big.Int, []*big.Int, []*big.Int) error {
		how := tape.Choose(simrt.SFault, 8)
		e0, e1 := tape.Raw(simrt.SFault), tape.Raw(simrt.SFault)
		rnd := tape.Raw(simrt.SFault)
		return func(n *nemesis, idx int, f solver.Hint, q *big.Int, in, out []*big.Int) error {
			if err := f(q, in, out); err != nil {
				return err
			}
			nbits, nl, p, ok := emuLayout(in, out)
			if !ok {
				return nil
			}
			ne := len(out) / nl
			i, j := int(e0)%ne, int(e1)%ne
			get := func(k int) *big.Int { return recompose(out[k*nl:(k+1)*nl], nbits) }
			put := func(k int, v *big.Int) {
				mask := new(big.Int).Lsh(big.NewInt(1), nbits)
				mask.Sub(mask, big.NewInt(1))
				t := new(big.Int).Set(v)
				for l := 0; l < nl; l++ {
					if l == nl-1 {
						out[k*nl+l].Set(t) // whatever is left goes to the top limb
					} else {
						out[k*nl+l].And(t, mask)
					}
					t.Rsh(t, nbits)
				}
			}
			vi := get(i)
			switch how {
			case 0: // negate modulo the emulated modulus
				put(i, new(big.Int).Mod(new(big.Int).Neg(vi), p))
			case 1:
				put(i, new(big.Int).Mod(new(big.Int).Add(vi, big.NewInt(1)), p))
			case 2:
				put(i, new(big.Int))
			case 3: // the non-reduced alias
				put(i, new(big.Int).Add(vi, p))
			case 4: // two elements exchanged
				vj := get(j)
				put(i, vj)
				put(j, vi)
			case 5: // value moved between two elements
				if i != j {
					vj := get(j)
					put(i, new(big.Int).Mod(new(big.Int).Add(vi, big.NewInt(1)), p))
					put(j, new(big.Int).Mod(new(big.Int).Sub(vj, big.NewInt(1)), p))
				}
			case 6: // every element zero
				for k := 0; k < ne; k++ {
					put(k, new(big.Int))
				}
			default:
				put(i, new(big.Int).Mod(new(big.Int).Mul(vi, big.NewInt(int64(rnd)|1)), p))
			}
			return nil
		}
	}})
}

var c16Cases = func() []*gcase {
	type k1 = emulated.Secp256k1Fp
	type r1 = emulated.Secp256k1Fr
	out := []*gcase{
		swCase[k1, r1]("secp256k1", "mul", false), swCase[k1, r1]("secp256k1", "mul", true),
		swCase[k1, r1]("secp256k1", "mulbase", false), swCase[k1, r1]("secp256k1", "jointbase", false),
		swCase[k1, r1]("secp256k1", "msm", false), swCase[k1, r1]("secp256k1", "addunified", false),
		swCase[emulated.P256Fp, emulated.P256Fr]("p256", "addunified", false), swCase[emulated.BLS12381Fp, emulated.BLS12381Fr]("bls12381", "addunified", false),
		swCase[emulated.P256Fp, emulated.P256Fr]("p256", "mul", false), swCase[emulated.P256Fp, emulated.P256Fr]("p256", "mul", true),
		swCase[emulated.P256Fp, emulated.P256Fr]("p256", "mulbase", true), swCase[emulated.P256Fp, emulated.P256Fr]("p256", "jointbase", false),
		swCase[emulated.BN254Fp, emulated.BN254Fr]("bn254", "mul", true), swCase[emulated.BN254Fp, emulated.BN254Fr]("bn254", "msm", true),
		swCase[emulated.BN254Fp, emulated.BN254Fr]("bn254", "addunified", false),
		swCase[emulated.BLS12381Fp, emulated.BLS12381Fr]("bls12381", "mul", false), swCase[emulated.BLS12381Fp, emulated.BLS12381Fr]("bls12381", "msm", true),
		ecdsaCase[k1, r1]("secp256k1"), ecdsaCase[emulated.P256Fp, emulated.P256Fr]("p256"),
		ecrecoverCase(),
		teCase(tedwards.BN254, "bn254", ecc.BN254, "mul"), teCase(tedwards.BN254, "bn254", ecc.BN254, "doublebase"), teCase(tedwards.BN254, "bn254", ecc.BN254, "add"),
		teCase(tedwards.BLS12_381, "jubjub", ecc.BLS12_381, "mul"), teCase(tedwards.BLS12_381_BANDERSNATCH, "bandersnatch", ecc.BLS12_381, "mul"),
		teCase(tedwards.BLS12_377, "bls12377", ecc.BLS12_377, "mul"), teCase(tedwards.BW6_761, "bw6761", ecc.BW6_761, "mul"),
		g1NativeCase("mul", false), g1NativeCase("mul", true), g1NativeCase("mulbase", false),
		ecpairCase(), eddsaCase(), pairNativeCase(false), pairEmuCase(false), pairEmuCase(true), pairEmu381Case(false), pairEmu381Case(true),
	}
	return out
}()

var c16Thorough = []*gcase{
	swCase[emulated.P384Fp, emulated.P384Fr]("p384", "mul", true), swCase[emulated.P384Fp, emulated.P384Fr]("p384", "addunified", false),
	swCase[emulated.BW6761Fp, emulated.BW6761Fr]("bw6761", "mul", false),
	ecdsaCase[emulated.P384Fp, emulated.P384Fr]("p384"),
}

func init() {
	register(&Engine{Name: "c16", Prop: "C16", Run: func(w *Worker, tape *simrt.Tape) *Outcome {
		cases := c16Cases
		if w.Thorough {
			cases = append(append([]*gcase{}, c16Cases...), c16Thorough...)
		}
		if only := w.param("case", ""); only != "" {
			var sel []*gcase
			for _, c := range cases {
				if strings.HasPrefix(c.Name, only) {
					sel = append(sel, c)
				}
			}
			cases = sel
		}
		fields := []sField{{Name: "bn254", Q: ecc.BN254.ScalarField(), Curve: ecc.BN254}}
		return nemesisRun(w, tape, "C16", cases, fields)
	}})
}
