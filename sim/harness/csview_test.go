package harness

import (
	"encoding/binary"
	"fmt"
	"io"
	"math/big"

	"github.com/consensys/gnark/backend/witness"
	"github.com/consensys/gnark/constraint"
	"github.com/consensys/gnark/constraint/solver"
)

// anyCS is the part of ConstraintSystemGeneric[E] that does not mention E.
type anyCS interface {
	io.WriterTo
	io.ReaderFrom
	Solve(w witness.Witness, opts ...solver.Option) (any, error)
	IsSolved(w witness.Witness, opts ...solver.Option) error
	GetNbConstraints() int
	GetNbPublicVariables() int
	GetNbSecretVariables() int
	GetNbInternalVariables() int
	GetNbInstructions() int
	Field() *big.Int
}

// csView is an element-type independent description of a compiled system built only from
// its exported accessors; it is what the solution oracle evaluates with math/big.
type csView struct {
	q      *big.Int
	isR1CS bool
	r1cs   []constraint.R1C
	sparse []constraint.SparseR1C
	coeffs []*big.Int
	nbPub  int // for R1CS includes the ONE wire
	nbSec  int
	nbInt  int
	elem   int // serialised element size in bytes
}

func viewOf[E constraint.Element](cs constraint.ConstraintSystemGeneric[E], isR1CS bool) *csView {
	v := &csView{isR1CS: isR1CS, q: cs.Field(), nbPub: cs.GetNbPublicVariables(), nbSec: cs.GetNbSecretVariables(), nbInt: cs.GetNbInternalVariables()}
	n := cs.GetNbCoefficients()
	v.coeffs = make([]*big.Int, n)
	for i := 0; i < n; i++ {
		// no fast path for the special ids 0..3: they are looked up like any other
		v.coeffs[i] = cs.ToBigInt(cs.GetCoefficient(i))
	}
	// the concrete system type implements both accessors; the system type decides
	if isR1CS {
		v.r1cs = any(cs).(interface{ GetR1Cs() []constraint.R1C }).GetR1Cs()
	} else {
		v.sparse = any(cs).(interface {
			GetSparseR1Cs() []constraint.SparseR1C
		}).GetSparseR1Cs()
	}
	if v.q.BitLen() <= 32 {
		v.elem = 4
	} else {
		v.elem = (v.q.BitLen() + 63) / 64 * 8
	}
	return v
}

// parseVectors splits serialised solution vectors (uint32 length prefix, big-endian elements).
func (v *csView) parseVectors(b []byte, k int) ([][]*big.Int, error) {
	out := make([][]*big.Int, 0, k)
	for i := 0; i < k; i++ {
		if len(b) < 4 {
			return nil, fmt.Errorf("solution bytes truncated at vector %d", i)
		}
		n := int(binary.BigEndian.Uint32(b))
		b = b[4:]
		if len(b) < n*v.elem {
			return nil, fmt.Errorf("solution vector %d: %d elements announced, %d bytes left", i, n, len(b))
		}
		vec := make([]*big.Int, n)
		for j := 0; j < n; j++ {
			vec[j] = new(big.Int).SetBytes(b[j*v.elem : (j+1)*v.elem])
		}
		b = b[n*v.elem:]
		out = append(out, vec)
	}
	if len(b) != 0 {
		return nil, fmt.Errorf("%d trailing bytes after the solution vectors", len(b))
	}
	return out, nil
}

func (v *csView) evalLE(le constraint.LinearExpression, w []*big.Int) (*big.Int, error) {
	r := new(big.Int)
	t := new(big.Int)
	for _, term := range le {
		if int(term.VID) >= len(w) || int(term.CID) >= len(v.coeffs) {
			return nil, fmt.Errorf("term (%d,%d) out of range", term.CID, term.VID)
		}
		t.Mul(v.coeffs[term.CID], w[term.VID])
		r.Add(r, t)
	}
	return r.Mod(r, v.q), nil
}

// checkSolution verifies a serialised solution against the exported constraints and the
// witness (public values, then secret values). It returns "" if everything holds.
func (v *csView) checkSolution(sol []byte, wit []*big.Int) string {
	if v.isR1CS {
		vecs, err := v.parseVectors(sol, 4)
		if err != nil {
			return err.Error()
		}
		w, a, b, c := vecs[0], vecs[1], vecs[2], vecs[3]
		if len(w) != v.nbPub+v.nbSec+v.nbInt {
			return fmt.Sprintf("W has %d entries, system has %d wires", len(w), v.nbPub+v.nbSec+v.nbInt)
		}
		if w[0].Cmp(big.NewInt(1)) != 0 {
			return "W[0] (ONE wire) is not 1"
		}
		for i, x := range wit {
			if w[1+i].Cmp(x) != 0 {
				return fmt.Sprintf("W[%d]=%s does not extend the witness value %s", 1+i, w[1+i], x)
			}
		}
		if len(a) != len(v.r1cs) || len(b) != len(v.r1cs) || len(c) != len(v.r1cs) {
			return fmt.Sprintf("A,B,C have %d,%d,%d rows, system has %d", len(a), len(b), len(c), len(v.r1cs))
		}
		t := new(big.Int)
		for i, r := range v.r1cs {
			l, err1 := v.evalLE(r.L, w)
			rr, err2 := v.evalLE(r.R, w)
			o, err3 := v.evalLE(r.O, w)
			if err1 != nil || err2 != nil || err3 != nil {
				return fmt.Sprintf("row %d: malformed", i)
			}
			t.Mul(l, rr).Mod(t, v.q)
			if t.Cmp(o) != 0 {
				return fmt.Sprintf("R1C row %d not satisfied by the returned W: %s * %s != %s", i, l, rr, o)
			}
			if a[i].Cmp(l) != 0 || b[i].Cmp(rr) != 0 || c[i].Cmp(o) != 0 {
				return fmt.Sprintf("row %d: returned A,B,C (%s,%s,%s) are not the row evaluations (%s,%s,%s)", i, a[i], b[i], c[i], l, rr, o)
			}
		}
		return ""
	}
	vecs, err := v.parseVectors(sol, 3)
	if err != nil {
		return err.Error()
	}
	l, r, o := vecs[0], vecs[1], vecs[2]
	n := v.nbPub + len(v.sparse)
	if len(l) < n || len(r) != len(l) || len(o) != len(l) || len(l)&(len(l)-1) != 0 {
		return fmt.Sprintf("L,R,O have %d,%d,%d rows for %d public inputs + %d constraints", len(l), len(r), len(o), v.nbPub, len(v.sparse))
	}
	wires := make(map[uint32]*big.Int)
	for i, x := range wit {
		wires[uint32(i)] = x
	}
	for i := 0; i < v.nbPub; i++ {
		if l[i].Cmp(wit[i]) != 0 {
			return fmt.Sprintf("leading row %d: L=%s is not public input %s", i, l[i], wit[i])
		}
	}
	set := func(id uint32, val *big.Int, where string) string {
		if old, ok := wires[id]; ok {
			if old.Cmp(val) != 0 {
				return fmt.Sprintf("wire %d carries %s at %s but %s elsewhere", id, val, where, old)
			}
			return ""
		}
		wires[id] = val
		return ""
	}
	t, acc := new(big.Int), new(big.Int)
	for i, c := range v.sparse {
		row := v.nbPub + i
		for _, p := range []struct {
			id  uint32
			val *big.Int
			n   string
		}{{c.XA, l[row], "L"}, {c.XB, r[row], "R"}, {c.XC, o[row], "O"}} {
			if s := set(p.id, p.val, fmt.Sprintf("%s[%d]", p.n, row)); s != "" {
				return s
			}
		}
		if c.Commitment != constraint.NOT {
			continue // enforced by the PLONK commitment argument, skipped by the solver
		}
		for _, id := range []uint32{c.QL, c.QR, c.QO, c.QM, c.QC} {
			if int(id) >= len(v.coeffs) {
				return fmt.Sprintf("gate %d: coefficient id %d out of range", i, id)
			}
		}
		acc.Mul(v.coeffs[c.QL], l[row])
		acc.Add(acc, t.Mul(v.coeffs[c.QR], r[row]))
		acc.Add(acc, t.Mul(v.coeffs[c.QO], o[row]))
		acc.Add(acc, t.Mul(t.Mul(v.coeffs[c.QM], l[row]), r[row]))
		acc.Add(acc, v.coeffs[c.QC])
		if acc.Mod(acc, v.q).Sign() != 0 {
			return fmt.Sprintf("sparse gate %d not satisfied by the returned L,R,O: qL=%s qR=%s qO=%s qM=%s qC=%s a=%s b=%s c=%s", i,
				v.coeffs[c.QL], v.coeffs[c.QR], v.coeffs[c.QO], v.coeffs[c.QM], v.coeffs[c.QC], l[row], r[row], o[row])
		}
	}
	// placeholder rows carry wire 0 in R and O; padding rows carry wire 0 everywhere
	w0, ok := wires[0]
	if ok {
		for i := 0; i < v.nbPub; i++ {
			if r[i].Cmp(w0) != 0 || o[i].Cmp(w0) != 0 {
				return fmt.Sprintf("placeholder row %d: R,O are not wire 0", i)
			}
		}
		for i := n; i < len(l); i++ {
			if l[i].Cmp(w0) != 0 || r[i].Cmp(w0) != 0 || o[i].Cmp(w0) != 0 {
				return fmt.Sprintf("padding row %d is not wire 0", i)
			}
		}
	}
	return ""
}
