package harness

import (
	"bytes"
	"crypto/sha256"
	"fmt"
	"math/big"
	"reflect"
	"strings"

	"github.com/consensys/gnark-crypto/ecc"
	"github.com/consensys/gnark/backend"
	"github.com/consensys/gnark/backend/groth16"
	"github.com/consensys/gnark/backend/plonk"
	"github.com/consensys/gnark/backend/witness"
	"github.com/consensys/gnark/constraint"
	"github.com/consensys/gnark/frontend"
	"github.com/consensys/gnark/frontend/cs/r1cs"
	"github.com/consensys/gnark/frontend/cs/scs"
	"github.com/consensys/gnark/std/algebra"
	"github.com/consensys/gnark/std/algebra/emulated/sw_bn254"
	"github.com/consensys/gnark/std/algebra/native/sw_bls12377"
	"github.com/consensys/gnark/std/math/emulated"
	stdgroth16 "github.com/consensys/gnark/std/recursion/groth16"
	stdplonk "github.com/consensys/gnark/std/recursion/plonk"
	"github.com/consensys/gnark/test"
	"github.com/consensys/gnark/test/unsafekzg"
	"verifsim/simrt"
)

// C17: the recursive (in-circuit) verifiers against the native verifiers, differentially, over
// a faulty wire. An inner prover produces honest (proof, public witness) pairs under a key; the
// wire between it and the verifier replays proofs against other public inputs, substitutes
// group elements and scalars of the proof, delivers a proof made under another key or for
// another circuit, alters the witness and elements of the key. The very same delivered triple
// is handed to the native verifier (configured with the matching recursion options) and, as the
// assignment of the outer circuit, to the in-circuit verifier (evaluated on the test engine:
// real gadget code, stubbed constraint backend). Oracle: both accept or both reject.

type recInnerA struct {
	P, Q frontend.Variable
	N, M frontend.Variable `gnark:",public"`
}

func (c *recInnerA) Define(api frontend.API) error {
	api.AssertIsEqual(api.Mul(c.P, c.Q), c.N)
	api.AssertIsEqual(api.Add(c.P, c.Q), c.M)
	return nil
}

// recInnerB: another circuit with the same number of public inputs
type recInnerB struct {
	P, Q frontend.Variable
	N, M frontend.Variable `gnark:",public"`
}

func (c *recInnerB) Define(api frontend.API) error {
	api.AssertIsEqual(api.Mul(c.P, c.P, c.Q), c.N)
	api.AssertIsEqual(api.Sub(c.P, c.Q), c.M)
	return nil
}

// recInnerC: with a commitment over an internal and a public variable
type recInnerC struct {
	P, Q frontend.Variable
	N, M frontend.Variable `gnark:",public"`
}

func (c *recInnerC) Define(api frontend.API) error {
	res := api.Mul(c.P, c.Q)
	api.AssertIsEqual(res, c.N)
	api.AssertIsEqual(api.Add(c.P, c.Q), c.M)
	cm, err := api.Compiler().(frontend.Committer).Commit(res, c.N, c.P)
	if err != nil {
		return err
	}
	api.AssertIsDifferent(cm, 0)
	return nil
}

func recAssign(kind string, p, q int64, field *big.Int) frontend.Circuit {
	P, Q := big.NewInt(p), big.NewInt(q)
	mod := func(x *big.Int) *big.Int { return x.Mod(x, field) }
	switch kind {
	case "B":
		n := new(big.Int).Mul(P, P)
		return &recInnerB{P: P, Q: Q, N: mod(n.Mul(n, Q)), M: mod(new(big.Int).Sub(P, Q))}
	case "C":
		return &recInnerC{P: P, Q: Q, N: new(big.Int).Mul(P, Q), M: new(big.Int).Add(P, Q)}
	}
	return &recInnerA{P: P, Q: Q, N: new(big.Int).Mul(P, Q), M: new(big.Int).Add(P, Q)}
}

func recTemplate(kind string) frontend.Circuit {
	switch kind {
	case "B":
		return &recInnerB{}
	case "C":
		return &recInnerC{}
	}
	return &recInnerA{}
}

// one key with honest sessions
type recKey struct {
	kind     string
	ccs      constraint.ConstraintSystem
	pk, vk   any
	proofs   []any
	pubs     []witness.Witness
	vkBytes  []byte
	nbCommit int
}

type recCfg struct {
	name         string
	be           int
	inner, outer ecc.ID
	cost         int // relative cost of one in-circuit evaluation (limits the faults per run)
	eval         func(ccs constraint.ConstraintSystem, vk, proof any, pub witness.Witness, fixedVk bool) error
	// evalSwitch: the key-switching variant (two keys in the outer circuit, an index selects one)
	evalSwitch func(ccs constraint.ConstraintSystem, vks [2]any, idx int, proof any, pub witness.Witness) error
	keys       map[string]*recKey
}

type g16Outer[FR emulated.FieldParams, G1El algebra.G1ElementT, G2El algebra.G2ElementT, GtEl algebra.GtElementT] struct {
	Proof        stdgroth16.Proof[G1El, G2El]
	VerifyingKey stdgroth16.VerifyingKey[G1El, G2El, GtEl]
	InnerWitness stdgroth16.Witness[FR]
}

func (c *g16Outer[FR, G1El, G2El, GtEl]) Define(api frontend.API) error {
	v, err := stdgroth16.NewVerifier[FR, G1El, G2El, GtEl](api)
	if err != nil {
		return err
	}
	return v.AssertProof(c.VerifyingKey, c.Proof, c.InnerWitness)
}

func g16Eval[FR emulated.FieldParams, G1El algebra.G1ElementT, G2El algebra.G2ElementT, GtEl algebra.GtElementT](outer *big.Int) func(constraint.ConstraintSystem, any, any, witness.Witness, bool) error {
	return func(ccs constraint.ConstraintSystem, vk, proof any, pub witness.Witness, fixedVk bool) error {
		cvk, err := stdgroth16.ValueOfVerifyingKey[G1El, G2El, GtEl](vk.(groth16.VerifyingKey))
		if err != nil {
			return fmt.Errorf("ValueOfVerifyingKey: %w", err)
		}
		cw, err := stdgroth16.ValueOfWitness[FR](pub)
		if err != nil {
			return fmt.Errorf("ValueOfWitness: %w", err)
		}
		cp, err := stdgroth16.ValueOfProof[G1El, G2El](proof.(groth16.Proof))
		if err != nil {
			return fmt.Errorf("ValueOfProof: %w", err)
		}
		circuit := &g16Outer[FR, G1El, G2El, GtEl]{
			Proof:        stdgroth16.PlaceholderProof[G1El, G2El](ccs),
			InnerWitness: stdgroth16.PlaceholderWitness[FR](ccs),
			VerifyingKey: stdgroth16.PlaceholderVerifyingKey[G1El, G2El, GtEl](ccs),
		}
		assignment := &g16Outer[FR, G1El, G2El, GtEl]{InnerWitness: cw, Proof: cp, VerifyingKey: cvk}
		if fixedVk {
			circuit.VerifyingKey = cvk
		}
		return test.IsSolved(circuit, assignment, outer)
	}
}

type g16SwitchOuter[FR emulated.FieldParams, G1El algebra.G1ElementT, G2El algebra.G2ElementT, GtEl algebra.GtElementT] struct {
	Proof        stdgroth16.Proof[G1El, G2El]
	Keys         [2]stdgroth16.VerifyingKey[G1El, G2El, GtEl]
	Idx          frontend.Variable
	InnerWitness stdgroth16.Witness[FR]
}

func (c *g16SwitchOuter[FR, G1El, G2El, GtEl]) Define(api frontend.API) error {
	v, err := stdgroth16.NewVerifier[FR, G1El, G2El, GtEl](api)
	if err != nil {
		return err
	}
	vk, err := v.SwitchVerificationKey(c.Idx, c.Keys[:])
	if err != nil {
		return err
	}
	return v.AssertProof(vk, c.Proof, c.InnerWitness)
}

func g16EvalSwitch[FR emulated.FieldParams, G1El algebra.G1ElementT, G2El algebra.G2ElementT, GtEl algebra.GtElementT](outer *big.Int) func(constraint.ConstraintSystem, [2]any, int, any, witness.Witness) error {
	return func(ccs constraint.ConstraintSystem, vks [2]any, idx int, proof any, pub witness.Witness) error {
		circuit := &g16SwitchOuter[FR, G1El, G2El, GtEl]{
			Proof:        stdgroth16.PlaceholderProof[G1El, G2El](ccs),
			InnerWitness: stdgroth16.PlaceholderWitness[FR](ccs),
		}
		assignment := &g16SwitchOuter[FR, G1El, G2El, GtEl]{Idx: idx}
		for i := range vks {
			cvk, err := stdgroth16.ValueOfVerifyingKey[G1El, G2El, GtEl](vks[i].(groth16.VerifyingKey))
			if err != nil {
				return err
			}
			circuit.Keys[i] = stdgroth16.PlaceholderVerifyingKey[G1El, G2El, GtEl](ccs)
			assignment.Keys[i] = cvk
		}
		var err error
		if assignment.InnerWitness, err = stdgroth16.ValueOfWitness[FR](pub); err != nil {
			return err
		}
		if assignment.Proof, err = stdgroth16.ValueOfProof[G1El, G2El](proof.(groth16.Proof)); err != nil {
			return err
		}
		return test.IsSolved(circuit, assignment, outer)
	}
}

type plonkSwitchOuter[FR emulated.FieldParams, G1El algebra.G1ElementT, G2El algebra.G2ElementT, GtEl algebra.GtElementT] struct {
	Proof        stdplonk.Proof[FR, G1El, G2El]
	Base         stdplonk.BaseVerifyingKey[FR, G1El, G2El]
	Keys         [2]stdplonk.CircuitVerifyingKey[FR, G1El]
	Idx          frontend.Variable
	InnerWitness stdplonk.Witness[FR]
}

func (c *plonkSwitchOuter[FR, G1El, G2El, GtEl]) Define(api frontend.API) error {
	v, err := stdplonk.NewVerifier[FR, G1El, G2El, GtEl](api)
	if err != nil {
		return err
	}
	vk, err := v.SwitchVerificationKey(c.Base, c.Idx, c.Keys[:])
	if err != nil {
		return err
	}
	return v.AssertProof(vk, c.Proof, c.InnerWitness, stdplonk.WithCompleteArithmetic())
}

func plonkEvalSwitch[FR emulated.FieldParams, G1El algebra.G1ElementT, G2El algebra.G2ElementT, GtEl algebra.GtElementT](outer *big.Int) func(constraint.ConstraintSystem, [2]any, int, any, witness.Witness) error {
	return func(ccs constraint.ConstraintSystem, vks [2]any, idx int, proof any, pub witness.Witness) error {
		circuit := &plonkSwitchOuter[FR, G1El, G2El, GtEl]{
			Proof:        stdplonk.PlaceholderProof[FR, G1El, G2El](ccs),
			InnerWitness: stdplonk.PlaceholderWitness[FR](ccs),
			Base:         stdplonk.PlaceholderBaseVerifyingKey[FR, G1El, G2El](ccs),
		}
		assignment := &plonkSwitchOuter[FR, G1El, G2El, GtEl]{Idx: idx}
		var err error
		if assignment.Base, err = stdplonk.ValueOfBaseVerifyingKey[FR, G1El, G2El](vks[0].(plonk.VerifyingKey)); err != nil {
			return err
		}
		for i := range vks {
			if assignment.Keys[i], err = stdplonk.ValueOfCircuitVerifyingKey[FR, G1El](vks[i].(plonk.VerifyingKey)); err != nil {
				return err
			}
			circuit.Keys[i] = stdplonk.PlaceholderCircuitVerifyingKey[FR, G1El](ccs)
		}
		if assignment.InnerWitness, err = stdplonk.ValueOfWitness[FR](pub); err != nil {
			return err
		}
		if assignment.Proof, err = stdplonk.ValueOfProof[FR, G1El, G2El](proof.(plonk.Proof)); err != nil {
			return err
		}
		return test.IsSolved(circuit, assignment, outer)
	}
}

type plonkOuter[FR emulated.FieldParams, G1El algebra.G1ElementT, G2El algebra.G2ElementT, GtEl algebra.GtElementT] struct {
	Proof        stdplonk.Proof[FR, G1El, G2El]
	VerifyingKey stdplonk.VerifyingKey[FR, G1El, G2El]
	InnerWitness stdplonk.Witness[FR]
}

func (c *plonkOuter[FR, G1El, G2El, GtEl]) Define(api frontend.API) error {
	v, err := stdplonk.NewVerifier[FR, G1El, G2El, GtEl](api)
	if err != nil {
		return err
	}
	return v.AssertProof(c.VerifyingKey, c.Proof, c.InnerWitness, stdplonk.WithCompleteArithmetic())
}

func plonkEval[FR emulated.FieldParams, G1El algebra.G1ElementT, G2El algebra.G2ElementT, GtEl algebra.GtElementT](outer *big.Int) func(constraint.ConstraintSystem, any, any, witness.Witness, bool) error {
	return func(ccs constraint.ConstraintSystem, vk, proof any, pub witness.Witness, fixedVk bool) error {
		cvk, err := stdplonk.ValueOfVerifyingKey[FR, G1El, G2El](vk.(plonk.VerifyingKey))
		if err != nil {
			return fmt.Errorf("ValueOfVerifyingKey: %w", err)
		}
		cw, err := stdplonk.ValueOfWitness[FR](pub)
		if err != nil {
			return fmt.Errorf("ValueOfWitness: %w", err)
		}
		cp, err := stdplonk.ValueOfProof[FR, G1El, G2El](proof.(plonk.Proof))
		if err != nil {
			return fmt.Errorf("ValueOfProof: %w", err)
		}
		circuit := &plonkOuter[FR, G1El, G2El, GtEl]{
			Proof:        stdplonk.PlaceholderProof[FR, G1El, G2El](ccs),
			InnerWitness: stdplonk.PlaceholderWitness[FR](ccs),
			VerifyingKey: stdplonk.PlaceholderVerifyingKey[FR, G1El, G2El](ccs),
		}
		assignment := &plonkOuter[FR, G1El, G2El, GtEl]{InnerWitness: cw, Proof: cp, VerifyingKey: cvk}
		if fixedVk {
			circuit.VerifyingKey = cvk
		}
		return test.IsSolved(circuit, assignment, outer)
	}
}

var recCfgs = []*recCfg{
	{name: "groth16/bls12_377-in-bw6_761", be: beGroth16, inner: ecc.BLS12_377, outer: ecc.BW6_761, cost: 1,
		eval:       g16Eval[sw_bls12377.ScalarField, sw_bls12377.G1Affine, sw_bls12377.G2Affine, sw_bls12377.GT](ecc.BW6_761.ScalarField()),
		evalSwitch: g16EvalSwitch[sw_bls12377.ScalarField, sw_bls12377.G1Affine, sw_bls12377.G2Affine, sw_bls12377.GT](ecc.BW6_761.ScalarField())},
	{name: "plonk/bls12_377-in-bw6_761", be: bePlonk, inner: ecc.BLS12_377, outer: ecc.BW6_761, cost: 3,
		eval:       plonkEval[sw_bls12377.ScalarField, sw_bls12377.G1Affine, sw_bls12377.G2Affine, sw_bls12377.GT](ecc.BW6_761.ScalarField()),
		evalSwitch: plonkEvalSwitch[sw_bls12377.ScalarField, sw_bls12377.G1Affine, sw_bls12377.G2Affine, sw_bls12377.GT](ecc.BW6_761.ScalarField())},
	{name: "groth16/bn254-in-bn254", be: beGroth16, inner: ecc.BN254, outer: ecc.BN254, cost: 100,
		eval: g16Eval[sw_bn254.ScalarField, sw_bn254.G1Affine, sw_bn254.G2Affine, sw_bn254.GTEl](ecc.BN254.ScalarField())},
}

func (rc *recCfg) proverOpt() backend.ProverOption {
	if rc.be == beGroth16 {
		return stdgroth16.GetNativeProverOptions(rc.outer.ScalarField(), rc.inner.ScalarField())
	}
	return stdplonk.GetNativeProverOptions(rc.outer.ScalarField(), rc.inner.ScalarField())
}

func (rc *recCfg) verifierOpt() backend.VerifierOption {
	if rc.be == beGroth16 {
		return stdgroth16.GetNativeVerifierOptions(rc.outer.ScalarField(), rc.inner.ScalarField())
	}
	return stdplonk.GetNativeVerifierOptions(rc.outer.ScalarField(), rc.inner.ScalarField())
}

func (rc *recCfg) nativeVerify(proof, vk any, pub witness.Witness) (err error, panicked string) {
	panicked = guard(func() {
		if rc.be == beGroth16 {
			err = groth16.Verify(proof.(groth16.Proof), vk.(groth16.VerifyingKey), pub, rc.verifierOpt())
		} else {
			err = plonk.Verify(proof.(plonk.Proof), vk.(plonk.VerifyingKey), pub, rc.verifierOpt())
		}
	})
	return
}

// key builds (once per process) a key of the given circuit kind; id distinguishes independent setups.
func (rc *recCfg) key(kind, id string) (*recKey, error) {
	if rc.keys == nil {
		rc.keys = map[string]*recKey{}
	}
	if k, ok := rc.keys[kind+id]; ok {
		return k, nil
	}
	field := rc.inner.ScalarField()
	k := &recKey{kind: kind}
	var err error
	if rc.be == beGroth16 {
		if k.ccs, err = frontend.Compile(field, r1cs.NewBuilder, recTemplate(kind)); err != nil {
			return nil, err
		}
		if k.pk, k.vk, err = groth16.Setup(k.ccs); err != nil {
			return nil, err
		}
	} else {
		if k.ccs, err = frontend.Compile(field, scs.NewBuilder, recTemplate(kind)); err != nil {
			return nil, err
		}
		srs, lag, err := unsafekzg.NewSRS(k.ccs, unsafekzg.WithToxicSeed([]byte("verif-c17-srs"+id)))
		if err != nil {
			return nil, err
		}
		if k.pk, k.vk, err = plonk.Setup(k.ccs, srs, lag); err != nil {
			return nil, err
		}
	}
	for _, pq := range [][2]int64{{3, 5}, {7, 11}, {5, 3}} {
		full, err := frontend.NewWitness(recAssign(kind, pq[0], pq[1], field), field)
		if err != nil {
			return nil, err
		}
		var proof any
		if rc.be == beGroth16 {
			proof, err = groth16.Prove(k.ccs, k.pk.(groth16.ProvingKey), full, rc.proverOpt())
		} else {
			proof, err = plonk.Prove(k.ccs, k.pk.(plonk.ProvingKey), full, rc.proverOpt())
		}
		if err != nil {
			return nil, err
		}
		pub, _ := full.Public()
		k.proofs = append(k.proofs, proof)
		k.pubs = append(k.pubs, pub)
	}
	k.vkBytes = toBytes(k.vk)
	rc.keys[kind+id] = k
	return k, nil
}

func (rc *recCfg) cloneVK(k *recKey) (any, error) {
	if rc.be == beGroth16 {
		vk := groth16.NewVerifyingKey(rc.inner)
		_, err := vk.ReadFrom(bytes.NewReader(k.vkBytes))
		return vk, err
	}
	vk := plonk.NewVerifyingKey(rc.inner)
	_, err := vk.ReadFrom(bytes.NewReader(k.vkBytes))
	return vk, err
}

// perturbGroup replaces a group element by another element of the same (sub)group; never by
// the point at infinity (the in-circuit arithmetic documents it as outside its domain).
func perturbGroup(tape *simrt.Tape, l reflect.Value, other reflect.Value) string {
	switch tape.Choose(simrt.SFault, 5) {
	case 0:
		rcall(l, "Neg", l.Addr())
		return "negated"
	case 1:
		k := big.NewInt(int64(2 + tape.Choose(simrt.SFault, 1000)))
		rcall(l, "ScalarMultiplication", l.Addr(), reflect.ValueOf(k))
		return fmt.Sprintf("multiplied by %s", k)
	case 2:
		if other.IsValid() && !reflect.DeepEqual(l.Interface(), other.Interface()) {
			rcall(l, "Add", l.Addr(), other.Addr())
			return "added another element"
		}
	case 3:
		if other.IsValid() {
			l.Set(other)
			return "replaced by another element"
		}
	}
	k := big.NewInt(3)
	rcall(l, "ScalarMultiplication", l.Addr(), reflect.ValueOf(k))
	return "tripled"
}

func isInfinity(l reflect.Value) bool {
	m := l.Addr().MethodByName("IsInfinity")
	return m.IsValid() && m.Call(nil)[0].Bool()
}

func c17Run(w *Worker, tape *simrt.Tape) *Outcome {
	o := &Outcome{}
	ch := func(n int) int { return tape.Choose(simrt.SWorkload, n) }
	// configurations by weight: the emulated one costs ~100x the two-chain ones
	var rc *recCfg
	switch x := ch(16); {
	case x < 8:
		rc = recCfgs[0]
	case x < 15:
		rc = recCfgs[1]
	default:
		rc = recCfgs[2]
	}
	if only := w.param("cfg", ""); only != "" {
		for _, c := range recCfgs {
			if c.name == only {
				rc = c
			}
		}
	}
	kind := []string{"A", "A", "C"}[ch(3)]
	if rc.be == bePlonk && kind == "C" && ch(2) == 0 {
		kind = "A"
	}
	where := rc.name + ":" + kind
	key, err := rc.key(kind, "")
	if err != nil {
		o.violate("prove-failed", "prove-failed:"+where, "inner sessions cannot be set up: "+err.Error())
		return o
	}
	key2, err := rc.key(kind, "#2") // independent setup of the same circuit
	if err != nil {
		o.violate("prove-failed", "prove-failed:"+where, err.Error())
		return o
	}
	keyB, err := rc.key("B", "") // another circuit, same public inputs
	if err != nil {
		o.violate("prove-failed", "prove-failed:"+where, err.Error())
		return o
	}
	o.NonTrivial = true
	o.probe("cfg:" + rc.name)
	o.probe("inner:" + kind)
	nfaults := w.paramInt("faults", 24)
	if rc.cost >= 100 {
		nfaults = max(1, nfaults/12)
	} else if rc.cost > 1 {
		nfaults = max(2, nfaults/2)
	}
	q := rc.inner.ScalarField()
	var descs []string
	for f := 0; f < nfaults; f++ {
		si := tape.Choose(simrt.SFault, len(key.proofs))
		proof, err := cloneProof(rc.be, rc.inner, key.proofs[si])
		if err != nil {
			o.violate("clone-failed", "clone-failed:"+where, err.Error())
			return o
		}
		vk, err := rc.cloneVK(key)
		if err != nil {
			o.violate("clone-failed", "clone-failed:"+where, err.Error())
			return o
		}
		pub := key.pubs[si]
		ccs := key.ccs
		fixedVk := tape.Choose(simrt.SFault, 3) == 0
		var fdesc string
		kindF := tape.Choose(simrt.SFault, 11)
		if f == 0 {
			kindF = 0
		}
		if kindF >= 9 {
			// key switching: two keys in the outer circuit, an index selects the one to verify
			// against; the delivered proof may be for either key
			if rc.evalSwitch == nil || kind != "A" {
				continue
			}
			idx := tape.Choose(simrt.SFault, 2)
			from := tape.Choose(simrt.SFault, 2)
			ks := [2]*recKey{key, keyB}
			vkA, _ := rc.cloneVK(key)
			vkB, _ := rc.cloneVK(keyB)
			vks := [2]any{vkA, vkB}
			pr, _ := cloneProof(rc.be, rc.inner, ks[from].proofs[si])
			pw := ks[from].pubs[si]
			if tape.Choose(simrt.SFault, 4) == 0 {
				pw = ks[1-from].pubs[si] // and the other circuit's public inputs
			}
			fdesc = fmt.Sprintf("key switching: index %d selects key %s, delivered proof is for key %s", idx, []string{"A", "B"}[idx], []string{"A", "B"}[from])
			o.fault("key_switching")
			nerr, npan := rc.nativeVerify(pr, vks[idx], pw)
			if npan != "" {
				o.violate("verify-panic", "verify-panic:"+where+":"+panicSite(npan), "native Verify panicked: "+npan+"\nfault: "+fdesc)
				return o
			}
			var cerr error
			cpan := guard(func() { cerr = rc.evalSwitch(key.ccs, vks, idx, pr, pw) })
			o.Evals++
			if (nerr == nil) != (cerr == nil && cpan == "") {
				class, what := "recursive-accepts-native-rejects", "the key-switching in-circuit verifier is satisfied although the native verifier rejects the proof under the selected key"
				detail := ""
				if nerr == nil {
					class, what = "native-accepts-recursive-rejects", "the key-switching in-circuit verifier is unsatisfiable although the native verifier accepts the proof under the selected key"
					if cerr != nil {
						detail = cerr.Error()
					}
					if cpan != "" {
						detail = "panic: " + cpan
					}
				} else {
					detail = "native: " + nerr.Error()
				}
				if o.violateOrKnown(w, class, class+":"+where+":key-switching", what+"\nfault: "+fdesc+"\n"+truncate(detail, 1500)) {
					o.Viol.Faults = []string{fdesc}
					return o
				}
			}
			if nerr == nil {
				o.probe("native_accepts")
			} else {
				o.probe("native_rejects")
			}
			descs = append(descs, fdesc)
			continue
		}
		switch kindF {
		case 0:
			fdesc = "none (honest triple)"
			o.fault("none")
		case 1: // replay against the public inputs of another session
			sj := (si + 1 + tape.Choose(simrt.SFault, len(key.pubs)-1)) % len(key.pubs)
			pub = key.pubs[sj]
			fdesc = fmt.Sprintf("proof of session %d replayed against the public inputs of session %d", si, sj)
			o.fault("replay")
		case 2: // a proof made under an independent setup of the same circuit
			proof, _ = cloneProof(rc.be, rc.inner, key2.proofs[si])
			fdesc = "proof made under another setup of the same circuit"
			o.fault("other_setup_proof")
		case 3: // the key of another circuit / a proof for another circuit
			if tape.Choose(simrt.SFault, 2) == 0 {
				vk, _ = rc.cloneVK(keyB)
				fdesc = "verifying key of another circuit"
				if kind != "A" {
					ccs = keyB.ccs // the outer circuit is built for the delivered key's shape
				}
			} else {
				proof, _ = cloneProof(rc.be, rc.inner, keyB.proofs[si])
				pub = keyB.pubs[si]
				fdesc = "proof and public inputs of another circuit"
			}
			if kind != "A" {
				// different shapes (commitments): the placeholder cannot even hold the delivery
				o.probe("other_circuit_shape_mismatch_skipped")
				continue
			}
			o.fault("other_circuit")
		case 4: // public witness element altered
			v := pubVector(pub)
			i := tape.Choose(simrt.SFault, len(v))
			switch tape.Choose(simrt.SFault, 3) {
			case 0:
				v[i].Add(v[i], big.NewInt(1)).Mod(v[i], q)
			case 1:
				v[i].Sub(v[i], big.NewInt(1)).Mod(v[i], q)
			default:
				j := (i + 1) % len(v)
				v[i], v[j] = v[j], v[i]
			}
			pw, err := pubFromVector(rc.inner, v)
			if err != nil {
				continue
			}
			pub = pw
			fdesc = fmt.Sprintf("public input %d altered", i)
			o.fault("witness_altered")
		case 5, 6, 7: // proof element substituted
			leaves := leavesOf(proof)
			if len(leaves) == 0 {
				continue
			}
			li := tape.Choose(simrt.SFault, len(leaves))
			l := leaves[li]
			var other reflect.Value
			if tape.Choose(simrt.SFault, 2) == 0 {
				other = sameTypeLeaf(tape, proof, l.V.Type(), li)
			} else {
				other = sameTypeLeaf(tape, key.proofs[(si+1)%len(key.proofs)], l.V.Type(), -1)
			}
			if other.IsValid() && !isFieldElem(other) && isInfinity(other) {
				other = reflect.Value{}
			}
			if !isFieldElem(l.V) && isInfinity(l.V) {
				continue
			}
			var how string
			if isFieldElem(l.V) {
				how = perturbLeaf(tape, l.V, other, q)
			} else {
				how = perturbGroup(tape, l.V, other)
			}
			fdesc = fmt.Sprintf("proof element %s %s", l.Path, how)
			o.fault("proof_element")
		case 8: // element of the (witness-supplied) verifying key substituted
			fixedVk = false
			leaves := leavesOf(vk)
			var cands []int
			for i, l := range leaves {
				// the PLONK key carries the KZG G2 points together with pairing lines precomputed
				// from them; editing one without the other gives a malformed key, not an altered one
				if strings.HasPrefix(l.Path, "Kzg.G2") || strings.HasPrefix(l.Path, "Kzg.Lines") {
					continue
				}
				if !isFieldElem(l.V) && !isInfinity(l.V) {
					cands = append(cands, i)
				}
			}
			if len(cands) == 0 {
				continue
			}
			li := cands[tape.Choose(simrt.SFault, len(cands))]
			l := leaves[li]
			other := sameTypeLeaf(tape, vk, l.V.Type(), li)
			if other.IsValid() && isInfinity(other) {
				other = reflect.Value{}
			}
			how := perturbGroup(tape, l.V, other)
			// the native keys cache values derived from their elements (e(alpha, beta), negated G2
			// elements, pairing lines): deliver the edited key as bytes, as a wire would
			edited := &recKey{vkBytes: toBytes(vk)}
			var rerr error
			if pan := guard(func() { vk, rerr = rc.cloneVK(edited) }); pan != "" || rerr != nil {
				o.probe("edited_vk_not_decodable")
				continue
			}
			fdesc = fmt.Sprintf("verifying key element %s %s", l.Path, how)
			o.fault("vk_element")
		}
		if fixedVk {
			fdesc += " [vk fixed in the outer circuit]"
		} else {
			fdesc += " [vk supplied as witness]"
		}
		// challenge-binding probe (PLONK): the two opening quotients are the prover's last
		// messages; the batching challenge of the in-circuit KZG verifier must depend on them, or
		// they can be chosen after it is known. Observable: the scalars handed to the
		// scalar-decomposition hints of the outer circuit must change when a quotient changes.
		if rc.be == bePlonk && kindF >= 5 && kindF <= 7 && (strings.Contains(fdesc, "proof element BatchedProof.H ") || strings.Contains(fdesc, "proof element ZShiftedOpening.H ")) {
			fp := func(pr any) (string, bool) {
				n := &nemesis{q: rc.outer.ScalarField()}
				undo := n.install()
				var e error
				pan := guard(func() { e = rc.eval(ccs, vk, pr, pub, fixedVk) })
				undo()
				_ = e
				if pan != "" {
					return "", false
				}
				h := sha256.New()
				cnt := 0
				for _, c := range n.calls {
					if strings.Contains(c.Name, "decomposeScalar") || strings.Contains(c.Name, "halfGCD") {
						for _, x := range c.In {
							h.Write(x.Bytes())
							h.Write([]byte{0})
						}
						cnt++
					}
				}
				return fmt.Sprintf("%d:%x", cnt, h.Sum(nil)), cnt > 0
			}
			honestFP, ok1 := fp(key.proofs[si])
			alteredFP, ok2 := fp(proof)
			o.Evals += 2
			if ok1 && ok2 {
				o.probe("challenge_binding_probes")
				if honestFP == alteredFP {
					if o.violateOrKnown(w, "challenge-not-bound", "challenge-not-bound:"+where+":"+faultKey(fdesc), "an opening quotient of the proof was altered but every scalar the in-circuit verifier multiplies by is unchanged: the batching challenge does not depend on the quotients, so they can be chosen after it is known\nfault: "+fdesc) {
						o.Viol.Faults = []string{fdesc}
						return o
					}
				}
			}
		}
		nerr, npan := rc.nativeVerify(proof, vk, pub)
		if npan != "" {
			o.violate("verify-panic", "verify-panic:"+where+":"+panicSite(npan), "native Verify panicked: "+npan+"\nfault: "+fdesc)
			return o
		}
		var cerr error
		cpan := guard(func() { cerr = rc.eval(ccs, vk, proof, pub, fixedVk) })
		o.Evals++
		nativeOK := nerr == nil
		circuitOK := cerr == nil && cpan == ""
		if nativeOK {
			o.probe("native_accepts")
		} else {
			o.probe("native_rejects")
		}
		descs = append(descs, fdesc)
		if nativeOK != circuitOK {
			detail := ""
			if cerr != nil {
				detail = cerr.Error()
			}
			if cpan != "" {
				detail = "panic: " + cpan
			}
			if nerr != nil {
				detail = "native: " + nerr.Error()
			}
			class, what := "recursive-accepts-native-rejects", "the in-circuit verifier is satisfied by a triple the native verifier rejects"
			if nativeOK {
				class, what = "native-accepts-recursive-rejects", "the in-circuit verifier is unsatisfiable for a triple the native verifier accepts"
			}
			if o.violateOrKnown(w, class, class+":"+where+":"+faultKey(fdesc), what+"\nfault: "+fdesc+"\n"+truncate(detail, 1500)) {
				o.Viol.Faults = []string{fdesc}
				return o
			}
		}
	}
	o.Desc = fmt.Sprintf("%s tape=%x", where, simrt.TapeHash(tape.Recorded()))
	if o.Sample == nil {
		o.Sample = map[string]any{"case": where, "faults": descs[:min(len(descs), 4)]}
	}
	return o
}

// faultKey is the stable part of a fault description (kind of fault, element path without values).
func faultKey(fdesc string) string {
	for _, p := range []string{"none", "proof of session", "proof made under another setup", "verifying key of another circuit", "proof and public inputs of another circuit", "public input", "proof element", "verifying key element"} {
		if len(fdesc) >= len(p) && fdesc[:len(p)] == p {
			if p == "proof element" || p == "verifying key element" {
				// keep the element path
				rest := fdesc[len(p)+1:]
				for i, c := range rest {
					if c == ' ' {
						return p + ":" + rest[:i]
					}
				}
			}
			return p
		}
	}
	return "?"
}

func init() {
	register(&Engine{Name: "c17", Prop: "C17", Run: c17Run})
}
