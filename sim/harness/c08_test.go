package harness

import (
	"encoding/binary"
	"fmt"
	"github.com/consensys/gnark-crypto/ecc"
	"reflect"
	"runtime"
	"runtime/debug"

	"github.com/consensys/gnark/backend/groth16"
	"github.com/consensys/gnark/backend/plonk"
	"github.com/consensys/gnark/backend/witness"
	"verifsim/simrt"
)

// C08: genuine proofs and public witnesses are written to the simulated disk and read back
// under truncation, corruption, altered length prefixes, trailing bytes, chunked readers and
// read errors; every decodable object - and every proof whose variable-length parts were
// truncated, extended or permuted in memory - is passed to Verify. Oracle: each step ends in
// an error or a value (a recovered panic, a fatal error of the worker process or a hang is a
// violation) and structurally inconsistent proofs / witnesses are rejected with an error.

var c08Feat = GenFeat{Commit: true, Lookup: true, Range: false, Hint: true, Wide: false, Bits: true, MaxOps: 6, MinOps: 1}

type c08art struct {
	proof    any
	enc      [2]*simrt.Writer // compressed, raw
	pubBytes []byte
}

var c08arts = map[*Fixture]*c08art{}

func (w *Worker) genuineProof(fx *Fixture) (*c08art, error) {
	if a, ok := c08arts[fx]; ok {
		return a, nil
	}
	// keyed by the fixture, not by the history of this process
	w.SetEntropy(simrt.Mix(w.Seed^0xc08, hash64(fmt.Sprintf("%d/%s/%s", fx.Backend, fx.Curve, fx.Prog))), simrt.EntKeyed, 0)
	var proof any
	var err error
	if fx.Backend == beGroth16 {
		proof, err = groth16.Prove(fx.CCS, fx.PK.(groth16.ProvingKey), fx.Wits[0].Full)
	} else {
		proof, err = plonk.Prove(fx.CCS, fx.PK.(plonk.ProvingKey), fx.Wits[0].Full)
	}
	if err != nil {
		return nil, err
	}
	a := &c08art{proof: proof}
	for i, raw := range []bool{false, true} {
		if a.enc[i], err = encode(proof, raw); err != nil {
			return nil, err
		}
	}
	a.pubBytes = witnessBytes(fx.Wits[0].Pub)
	c08arts[fx] = a
	return a, nil
}

// boundaryOffset picks an offset near an element boundary (or anywhere) of an artefact.
func boundaryOffset(tape *simrt.Tape, wr *simrt.Writer, n int) int {
	if n == 0 {
		return 0
	}
	if len(wr.Log) > 0 && tape.Choose(simrt.SFault, 3) != 0 {
		rec := wr.Log[tape.Choose(simrt.SFault, len(wr.Log))]
		off := rec.Off + []int{0, -1, 1, rec.Len - 1, rec.Len / 2}[tape.Choose(simrt.SFault, 5)]
		if off < 0 {
			off = 0
		}
		if off >= n {
			off = n - 1
		}
		return off
	}
	return tape.Choose(simrt.SFault, n)
}

// small: allocation stays small whatever the element size; bombs: the allocation a decoder
// makes from the prefix alone exceeds any sane memory limit (run in a separate batch, where a
// dying worker loses nothing else)
var prefixSmall = []uint32{0, 1, 2, 7, 0x1000, 0x10000}
var prefixBombs = []uint32{0x7fffffff, 0xffffffff, 0x80000000, 0x08000000}
var prefixValues = prefixSmall

func c08Run(w *Worker, tape *simrt.Tape) *Outcome {
	o := &Outcome{}
	ch := func(n int) int { return tape.Choose(simrt.SWorkload, n) }
	curves := w.curves()
	curve := curves[0]
	if ch(3) == 0 {
		curve = curves[ch(len(curves))]
	}
	be := ch(2)
	slot := ch(w.paramInt("slots", 24))
	fx, err := w.fixture(be, curve, slot, c08Feat, true)
	if err != nil {
		o.probe("fixture_skipped")
		o.Desc = "skipped: " + err.Error()
		return o
	}
	art, err := w.genuineProof(fx)
	if err != nil {
		o.violate("prove-failed", "prove-failed:"+beNames[be], "cannot make the genuine proof: "+err.Error())
		return o
	}
	where := beNames[be]
	nfaults := w.paramInt("faults", 48)
	bombs := w.param("bombs", "0") == "1"
	prefixValues = prefixSmall
	if bombs {
		prefixValues = prefixBombs
	}
	o.NonTrivial = true
	kinds := map[string]bool{}
	pub := fx.Wits[0].Pub
	fail := func(class, key, msg string, f string) bool {
		o.violate(class, class+":"+where+":"+key, msg+"\nfault: "+f+"\ncircuit: "+fx.Prog.String())
		if o.Viol.Faults == nil {
			o.Viol.Faults = []string{f}
		}
		return true
	}
	verifyDecoded := func(proof any, pw witness.Witness, fdesc string, mustReject bool) bool {
		o.Evals++
		err, pan := verifyAny(be, proof, fx.VK, pw)
		if pan != "" {
			return fail("verify-panic", panicSite(pan), "Verify panicked: "+pan, fdesc)
		}
		if mustReject && err == nil {
			return fail("inconsistent-structure-accepted", fdesc[:min(len(fdesc), 24)], "Verify accepted a structurally inconsistent input", fdesc)
		}
		if err == nil {
			o.probe("verify_accepted")
		} else {
			o.probe("verify_rejected")
		}
		return false
	}
	for f := 0; f < nfaults; f++ {
		// a decoder that allocated a few GB from a garbage prefix (and then failed) leaves the
		// address space mapped: hand it back, or later runs die of the earlier run's fault
		releaseMemory()
		kind := tape.Choose(simrt.SFault, 9)
		if bombs {
			kind = []int{2, 6, 7, 9}[tape.Choose(simrt.SFault, 4)]
			o.fault("allocation_bomb_prefix")
		}
		raw := tape.Choose(simrt.SFault, 2)
		wr := art.enc[raw]
		data := append([]byte(nil), wr.Buf...)
		var fdesc string
		rd := simrt.NewReader(nil)
		if tape.Choose(simrt.SFault, 2) == 1 {
			rd.Chunk = simrt.TapeChunker(tape)
			o.fault("chunked_reader")
		}
		if tape.Choose(simrt.SFault, 4) == 1 {
			rd.EOFWithData = true
			o.fault("eof_with_data")
		}
		switch kind {
		case 0: // truncation
			k := boundaryOffset(tape, wr, len(data))
			data = data[:k]
			fdesc = fmt.Sprintf("truncate proof(raw=%d) at %d of %d", raw, k, len(wr.Buf))
			o.fault("truncation")
		case 1: // byte corruption
			k := boundaryOffset(tape, wr, len(data))
			// the two high-order bytes of a length prefix turn it into an allocation bomb: those
			// belong to the bombs batch
			for _, r := range wr.Log {
				if r.Len == 4 && (k == r.Off || k == r.Off+1) {
					k = r.Off + 3
				}
			}
			x := byte(1 + tape.Choose(simrt.SFault, 255))
			for _, r := range wr.Log {
				if r.Len >= 32 && k == r.Off {
					// the top bits of an element's first byte are encoding metadata: changing them
					// desynchronises the stream and turns point data into a length prefix (an
					// allocation bomb): those flips run in the bombs batch (kind 9)
					if x &= 0x1f; x == 0 {
						x = 1
					}
				}
			}
			data[k] ^= x
			fdesc = fmt.Sprintf("flip byte %d of proof(raw=%d)", k, raw)
			o.fault("byte_flip")
		case 9: // metadata bits of an element's first byte (bombs batch only)
			var els []simrt.WriteRec
			for _, r := range wr.Log {
				if r.Len >= 32 {
					els = append(els, r)
				}
			}
			if len(els) == 0 {
				continue
			}
			r := els[tape.Choose(simrt.SFault, len(els))]
			data[r.Off] ^= byte(0x20 << tape.Choose(simrt.SFault, 3))
			fdesc = fmt.Sprintf("metadata bits of the element at %d of proof(raw=%d)", r.Off, raw)
			o.fault("element_metadata_flip")
		case 2: // length prefix
			var pre []simrt.WriteRec
			for _, r := range wr.Log {
				if r.Len == 4 {
					pre = append(pre, r)
				}
			}
			if len(pre) == 0 {
				continue
			}
			r := pre[tape.Choose(simrt.SFault, len(pre))]
			old := binary.BigEndian.Uint32(data[r.Off:])
			v := prefixValues[tape.Choose(simrt.SFault, len(prefixValues))]
			if !bombs && tape.Choose(simrt.SFault, 2) == 1 {
				v = old + uint32(tape.Choose(simrt.SFault, 3))
				if v > 0 {
					v-- // old-1, old, old+1 without wrapping below zero
				}
			}
			binary.BigEndian.PutUint32(data[r.Off:], v)
			fdesc = fmt.Sprintf("length prefix at %d of proof(raw=%d): %d -> %d", r.Off, raw, old, v)
			o.fault("length_prefix")
		case 3: // trailing bytes
			n := 1 + tape.Choose(simrt.SFault, 64)
			for i := 0; i < n; i++ {
				data = append(data, byte(tape.Raw(simrt.SFault)))
			}
			fdesc = fmt.Sprintf("%d trailing bytes after proof(raw=%d)", n, raw)
			o.fault("trailing_bytes")
		case 4: // read error at byte k
			rd.FailAt = boundaryOffset(tape, wr, len(data))
			fdesc = fmt.Sprintf("read error at byte %d of proof(raw=%d)", rd.FailAt, raw)
			o.fault("read_error")
		case 5: // in-memory edit of a variable-length part
			cp, err := cloneProof(be, curve, art.proof)
			if err != nil {
				fail("clone-failed", "clone", "raw round trip of a genuine proof failed: "+err.Error(), "clone")
				return o
			}
			var paths []string
			sliceFields(reflect.ValueOf(cp), "", &paths)
			if len(paths) == 0 {
				continue
			}
			path := paths[tape.Choose(simrt.SFault, len(paths))]
			fv := fieldByPath(reflect.ValueOf(cp), path)
			n := fv.Len()
			op := tape.Choose(simrt.SFault, 6)
			changed := true
			switch op {
			case 0:
				fv.Set(reflect.MakeSlice(fv.Type(), 0, 0))
				changed = n != 0
			case 1:
				if n == 0 {
					changed = false
				} else {
					fv.Set(fv.Slice(0, n-1))
				}
			case 2: // extend by one (copy of the last, or a zero element)
				ext := reflect.MakeSlice(fv.Type(), n+1, n+1)
				reflect.Copy(ext, fv)
				if n > 0 {
					ext.Index(n).Set(fv.Index(n - 1))
				}
				fv.Set(ext)
			case 3: // extend by many
				ext := reflect.MakeSlice(fv.Type(), n+1+tape.Choose(simrt.SFault, 40), n+41)
				reflect.Copy(ext, fv)
				fv.Set(ext)
			case 4: // nil
				fv.Set(reflect.Zero(fv.Type()))
				changed = n != 0
			case 5: // cut to a prefix
				if n < 2 {
					changed = false
				} else {
					fv.Set(fv.Slice(0, 1+tape.Choose(simrt.SFault, n-1)))
				}
			}
			fdesc = fmt.Sprintf("%s: length %d -> %d (op %d)", path, n, fv.Len(), op)
			o.fault("struct_length_edit")
			kinds["struct:"+path] = true
			if verifyDecoded(cp, pub, fdesc, changed) {
				return o
			}
			// ... and together with a public witness whose length is off by the same amount in the
			// other direction (two prover-supplied counts whose errors cancel), or by a little
			nPub := (len(art.pubBytes) - 12) / max(1, frSize(curve))
			for _, k := range []int{nPub + (n - fv.Len()), nPub + 1, nPub - 1, nPub + 2} {
				if k < 0 || k == nPub || k > nPub+64 {
					continue
				}
				pw := witnessOfLen(curve, art.pubBytes, k)
				if pw == nil {
					continue
				}
				o.fault("struct_length_edit+witness_length")
				if verifyDecoded(cp, pw, fmt.Sprintf("%s and a public witness of %d instead of %d elements", fdesc, k, nPub), true) {
					return o
				}
			}
			// the edited proof must also survive a serialisation round trip without a panic
			var encErr error
			if pan := guard(func() { _, encErr = encode(cp, raw == 1) }); pan != "" {
				fail("encode-panic", panicSite(pan), "encoding an edited proof panicked: "+pan, fdesc)
				return o
			}
			_ = encErr
			continue
		case 6, 7: // public witness faults
			wb := append([]byte(nil), art.pubBytes...)
			sub := tape.Choose(simrt.SFault, 5)
			if bombs {
				sub = 1 + tape.Choose(simrt.SFault, 3)
			}
			mustReject := true
			switch sub {
			case 0:
				wb = wb[:tape.Choose(simrt.SFault, len(wb))]
				fdesc = fmt.Sprintf("truncate public witness at %d of %d", len(wb), len(art.pubBytes))
			case 1: // header: number of public values
				v := prefixValues[tape.Choose(simrt.SFault, len(prefixValues))]
				mustReject = v != binary.BigEndian.Uint32(wb[0:])
				binary.BigEndian.PutUint32(wb[0:], v)
				fdesc = fmt.Sprintf("public witness header nbPublic -> %d", v)
			case 2: // header: number of secret values
				v := prefixValues[tape.Choose(simrt.SFault, len(prefixValues))]
				binary.BigEndian.PutUint32(wb[4:], v)
				fdesc = fmt.Sprintf("public witness header nbSecret -> %d", v)
				mustReject = false // the verifier only uses the vector; a lying nbSecret must merely not crash
			case 3: // vector length prefix
				v := prefixValues[tape.Choose(simrt.SFault, len(prefixValues))]
				mustReject = v != binary.BigEndian.Uint32(wb[8:])
				binary.BigEndian.PutUint32(wb[8:], v)
				fdesc = fmt.Sprintf("public witness vector length -> %d", v)
			case 4:
				k := tape.Choose(simrt.SFault, len(wb))
				if k < 12 && k%4 < 2 {
					k += 2 // high-order bytes of the three length fields: bombs batch
				}
				wb[k] ^= byte(1 + tape.Choose(simrt.SFault, 255))
				fdesc = fmt.Sprintf("flip byte %d of the public witness", k)
				mustReject = false
			}
			o.fault("witness_fault")
			kinds["witness"] = true
			o.Evals++
			pw, err, pan := readWitness(curve, wb, kind == 7)
			if pan != "" {
				fail("decode-panic", panicSite(pan), "decoding a public witness panicked: "+pan, fdesc)
				return o
			}
			if err != nil {
				o.probe("witness_decode_error")
				continue
			}
			o.probe("witness_decoded")
			// accessors on whatever was decoded
			if pan := guard(func() { _ = pw.Vector(); _, _ = pw.Public(); _, _ = pw.MarshalBinary() }); pan != "" {
				fail("witness-accessor-panic", panicSite(pan), "Public()/Vector()/MarshalBinary() panicked on a decoded witness: "+pan, fdesc)
				return o
			}
			// header / vector mismatch must be rejected by the verifier, not crash it
			nv := reflect.ValueOf(pw.Vector()).Len()
			if verifyDecoded(art.proof, pw, fdesc, mustReject && nv != reflect.ValueOf(pub.Vector()).Len()) {
				return o
			}
			continue
		case 8: // genuine bytes, adversarial but legal reader behaviour: must decode and verify
			fdesc = fmt.Sprintf("fault-free read of proof(raw=%d) with chunking", raw)
			rd.Chunk = simrt.TapeChunker(tape)
			o.fault("fault_free_chunked_read")
		}
		kinds[fmt.Sprintf("bytes:%d", kind)] = true
		rd.Data = data
		o.Evals++
		proof, n, err, pan := decodeProof(be, curve, rd)
		if pan != "" {
			fail("decode-panic", panicSite(pan), "Proof.ReadFrom panicked: "+pan, fdesc)
			return o
		}
		if n > int64(len(data)) || int(n) != rd.Consumed() && err == nil {
			fail("byte-count", "readfrom", fmt.Sprintf("ReadFrom reported %d bytes, the reader handed out %d of %d", n, rd.Consumed(), len(data)), fdesc)
			return o
		}
		if err != nil {
			o.probe("decode_error")
			if kind == 8 {
				fail("genuine-rejected", "decode", "a genuine proof was not decodable under legal chunking: "+err.Error(), fdesc)
				return o
			}
			continue
		}
		o.probe("decoded")
		if kind == 4 && rd.Injected > 0 {
			fail("read-error-swallowed", "readfrom", "the reader returned an error but ReadFrom reported success", fdesc)
			return o
		}
		if verifyDecoded(proof, pub, fdesc, false) {
			return o
		}
		if kind == 8 {
			if err, _ := verifyAny(be, proof, fx.VK, pub); err != nil {
				fail("genuine-rejected", "verify", "a genuine proof read back under legal chunking was rejected: "+err.Error(), fdesc)
				return o
			}
		}
	}
	var ks []string
	for k := range kinds {
		ks = append(ks, k)
	}
	o.Desc = fmt.Sprintf("%s/%s/slot%d[%s] tape=%x", beNames[be], curve, slot, fx.Prog.Kinds(), simrt.TapeHash(tape.Recorded()))
	if o.Sample == nil {
		o.Sample = map[string]any{"case": o.Desc, "faults": nfaults, "proof_bytes": len(art.enc[0].Buf), "raw_proof_bytes": len(art.enc[1].Buf), "elements": len(art.enc[0].Log)}
	}
	return o
}

func frSize(curve ecc.ID) int { return (curve.ScalarField().BitLen() + 7) / 8 }

// witnessOfLen builds a well-formed public witness of k elements from the elements of a genuine one.
func witnessOfLen(curve ecc.ID, genuine []byte, k int) witness.Witness {
	sz := frSize(curve)
	n := (len(genuine) - 12) / sz
	b := make([]byte, 12, 12+k*sz)
	binary.BigEndian.PutUint32(b[0:], uint32(k))
	binary.BigEndian.PutUint32(b[4:], 0)
	binary.BigEndian.PutUint32(b[8:], uint32(k))
	for i := 0; i < k; i++ {
		if n == 0 {
			b = append(b, make([]byte, sz)...)
		} else {
			j := i % n
			b = append(b, genuine[12+j*sz:12+(j+1)*sz]...)
		}
	}
	w, err, pan := readWitness(curve, b, false)
	if err != nil || pan != "" {
		return nil
	}
	return w
}

func releaseMemory() {
	var ms runtime.MemStats
	runtime.ReadMemStats(&ms)
	if ms.HeapSys-ms.HeapReleased > 1<<30 {
		debug.FreeOSMemory()
	}
}

func init() {
	register(&Engine{Name: "c08", Prop: "C08", Run: c08Run})
}
