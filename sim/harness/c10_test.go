package harness

import (
	"bytes"
	"fmt"
	"math/big"
	"strings"

	"github.com/consensys/gnark/backend"
	"github.com/consensys/gnark/backend/groth16"
	"github.com/consensys/gnark/backend/plonk"
	"github.com/consensys/gnark/constraint/solver"
	"verifsim/simrt"
)

// C10: N client tasks share one compiled system, one proving key, one verifying key and one
// option slice with spare capacity, and issue Solve / Prove / Verify / IsSolved calls with
// distinct witnesses under tape-chosen schedules. Oracle: every call returns what the same
// call returns running alone with the same logical entropy (solo model).

const (
	ckSolve = iota
	ckProve
	ckProveVerify
	ckVerify
	ckIsSolved
	numCallKinds
)

var ckNames = []string{"solve", "prove", "prove+verify", "verify", "issolved"}

type call struct {
	Kind    int
	Wit     int
	NbTasks int // 0 = default
	Shared  bool
}

// c10StatZK: the PLONK prover calls of the current run use WithStatisticalZeroKnowledge (part of
// the call label, hence of the solo-model cache key)
var c10StatZK bool

func (c call) label() string {
	if c10StatZK && (c.Kind == ckProve || c.Kind == ckProveVerify) {
		return fmt.Sprintf("%s/w%d/t%d/statzk", ckNames[c.Kind], c.Wit, c.NbTasks)
	}
	return fmt.Sprintf("%s/w%d/t%d", ckNames[c.Kind], c.Wit, c.NbTasks)
}

var nbTasksChoices = []int{0, 1, 2, 3, 16}

// doCall performs one API call; shared is the option slice shared between clients.
func doCall(fx *Fixture, c call, shared []solver.Option) *callResult {
	sc := simrt.SetScope(c.label())
	var sopts []solver.Option
	if c.Shared {
		sopts = shared
	} else if c.NbTasks > 0 {
		sopts = []solver.Option{solver.WithNbTasks(c.NbTasks)}
	}
	w := fx.Wits[c.Wit]
	res := &callResult{}
	defer func() { res.Ambiguous = sc.Ambiguous() }()
	switch c.Kind {
	case ckSolve:
		sol, err := fx.CCS.Solve(w.Full, sopts...)
		if err != nil {
			res.ErrClass, res.Err = errClass(err), err.Error()
		} else {
			res.Bytes = toBytes(sol)
		}
	case ckIsSolved:
		err := fx.CCS.IsSolved(w.Full, sopts...)
		if err != nil {
			res.ErrClass, res.Err = errClass(err), err.Error()
		}
	case ckProve, ckProveVerify:
		var proof any
		var err error
		popt := backend.WithSolverOptions(sopts...)
		if fx.Backend == beGroth16 {
			proof, err = groth16.Prove(fx.CCS, fx.PK.(groth16.ProvingKey), w.Full, popt)
		} else {
			if c10StatZK {
				proof, err = plonk.Prove(fx.CCS, fx.PK.(plonk.ProvingKey), w.Full, popt, backend.WithStatisticalZeroKnowledge())
			} else {
				proof, err = plonk.Prove(fx.CCS, fx.PK.(plonk.ProvingKey), w.Full, popt)
			}
		}
		if err != nil {
			res.ErrClass, res.Err = errClass(err), err.Error()
			break
		}
		res.Bytes = toBytes(proof)
		res.Obj = proof
		if c.Kind == ckProveVerify {
			var verr error
			if fx.Backend == beGroth16 {
				verr = groth16.Verify(proof.(groth16.Proof), fx.VK.(groth16.VerifyingKey), w.Pub)
			} else {
				verr = plonk.Verify(proof.(plonk.Proof), fx.VK.(plonk.VerifyingKey), w.Pub)
			}
			if verr != nil {
				res.ErrClass, res.Err = "own-proof-rejected", verr.Error()
			}
		}
	}
	return res
}

func doVerify(fx *Fixture, proof any, widx int) *callResult {
	res := &callResult{}
	var err error
	if fx.Backend == beGroth16 {
		err = groth16.Verify(proof.(groth16.Proof), fx.VK.(groth16.VerifyingKey), fx.Wits[widx].Pub)
	} else {
		err = plonk.Verify(proof.(plonk.Proof), fx.VK.(plonk.VerifyingKey), fx.Wits[widx].Pub)
	}
	if err != nil {
		res.ErrClass, res.Err = "verify-reject", err.Error()
	}
	return res
}

// soloResult runs a call alone in its own bubble under the default schedule.
func (w *Worker) soloResult(fx *Fixture, c call, o *Outcome) *callResult {
	key := c.label()
	if r, ok := fx.solo[key]; ok {
		return r
	}
	c.Shared = false
	var r *callResult
	tape := simrt.NewTape(1)
	res := w.RunSim(simrt.Config{Tape: tape, Policy: simrt.PolDefault, HotPeriod: 512}, func() {
		r = doCall(fx, c, nil)
	})
	if res.Panic != "" || res.Deadlock || r == nil {
		r = &callResult{ErrClass: "solo-crash", Err: res.Panic + " " + strings.Join(res.Blocked, ",")}
	}

	fx.solo[key] = r
	return r
}

var c10Feat = GenFeat{Commit: true, Lookup: true, Range: true, Hint: true, Wide: true, Bits: true, ScaledBool: true, MaxOps: 10, MinOps: 2}

func c10Run(w *Worker, tape *simrt.Tape) *Outcome {
	if w.param("mode", "") == "registry" {
		return c10Registry(w, tape)
	}
	o := &Outcome{}
	ch := func(n int) int { return tape.Choose(simrt.SWorkload, n) }
	curves := w.curves()
	curve := curves[0]
	if ch(4) == 0 {
		curve = curves[ch(len(curves))]
	}
	be := ch(2)
	slot := ch(w.paramInt("slots", 48))
	solverOnly := ch(3) == 0
	fx, err := w.fixture(be, curve, slot, c10Feat, !solverOnly)
	if err != nil {
		o.probe("fixture_skipped") // the generated program does not compile (e.g. commits to a constant): not a case
		o.Desc = "skipped: " + err.Error()
		return o
	}
	// calls draw entropy keyed by (fixture, call label, relative task path): the solo model
	// of a fixture is therefore valid across runs
	w.SetEntropy(simrt.Mix(w.Seed^0xc10, uint64(slot)*16+uint64(be)), simrt.EntKeyed, 0)
	cfg := drawPolicy(tape)
	nclients := 2 + ch(3)
	c10StatZK = be == bePlonk && ch(3) == 0
	if c10StatZK {
		o.probe("opts:statzk")
	}
	sharedTasks := nbTasksChoices[1+ch(len(nbTasksChoices)-1)]
	clients := make([][]call, nclients)
	var descParts []string
	anyProve := false
	for i := range clients {
		ncalls := 1 + ch(2)
		for j := 0; j < ncalls; j++ {
			c := call{Wit: ch(len(fx.Wits))}
			if solverOnly {
				c.Kind = []int{ckSolve, ckSolve, ckIsSolved}[ch(3)]
			} else {
				c.Kind = ch(numCallKinds)
			}
			if ch(2) == 0 {
				c.Shared = true
				c.NbTasks = sharedTasks
			} else {
				c.NbTasks = nbTasksChoices[ch(len(nbTasksChoices))]
			}
			if c.Kind == ckProve || c.Kind == ckProveVerify {
				anyProve = true
			}
			clients[i] = append(clients[i], c)
			descParts = append(descParts, fmt.Sprintf("c%d:%s", i, c.label()))
		}
	}
	bgCompile := ch(3) == 0
	bgRegister := ch(3) == 0
	o.Desc = fmt.Sprintf("%s/%s/slot%d[%s] %s bg=%v,%v", beNames[be], curve, slot, fx.Prog.Kinds(), strings.Join(descParts, " "), bgCompile, bgRegister)
	o.NonTrivial = true

	// solo model
	expected := make([][]*callResult, nclients)
	for i := range clients {
		for _, c := range clients[i] {
			var exp *callResult
			if c.Kind == ckVerify {
				// verify the solo proof of witness c.Wit (if it exists) against c.Wit's public input
				pc := call{Kind: ckProve, Wit: c.Wit, NbTasks: 0}
				pr := w.soloResult(fx, pc, o)
				if pr.ErrClass != "" {
					exp = &callResult{ErrClass: "no-proof"}
				} else {
					exp = &callResult{}
				}
			} else {
				exp = w.soloResult(fx, c, o)
			}
			if exp.ErrClass == "solo-crash" {
				o.violate("solo-crash", "solo-crash:"+beNames[be]+":"+ckNames[c.Kind], "call crashes even when running alone: "+exp.Err+" prog="+fx.Prog.String())
				return o
			}
			expected[i] = append(expected[i], exp)
		}
	}
	// completeness sanity of the model itself: a valid witness must solve/prove solo
	for i := range clients {
		for j, c := range clients[i] {
			if c.Kind != ckVerify && fx.Wits[c.Wit].Valid != (expected[i][j].ErrClass == "") {
				o.violate("solo-model", "solo-model:"+beNames[be]+":"+ckNames[c.Kind], fmt.Sprintf("solo %s on a %v witness returned %s; prog=%s", c.label(), fx.Wits[c.Wit].Valid, expected[i][j].short(), fx.Prog))
				return o
			}
		}
	}
	var otherProg *Prog
	var otherBytes []byte
	if bgCompile {
		ofx, err := w.fixture(be, curve, (slot+1)%w.paramInt("slots", 48), c10Feat, false)
		if err == nil {
			otherProg, otherBytes = ofx.Prog, ofx.CCSBytes
		}
	}

	shared := make([]solver.Option, 1, 8)
	shared[0] = solver.WithNbTasks(sharedTasks)
	got := make([][]*callResult, nclients)
	var bgErr string
	var post *callResult
	postCall := call{Kind: ckSolve, Wit: 0}
	ent0 := w.ent.Anon()
	res := w.RunSim(cfg, func() {
		done := make(chan struct{}, nclients+2)
		n := 0
		for i := range clients {
			i := i
			got[i] = make([]*callResult, len(clients[i]))
			n++
			simrt.Go(func() {
				defer func() { done <- struct{}{} }()
				for j, c := range clients[i] {
					if c.Kind == ckVerify {
						pr := fx.solo[call{Kind: ckProve, Wit: c.Wit}.label()]
						if pr == nil || pr.Obj == nil {
							got[i][j] = &callResult{ErrClass: "no-proof"}
							continue
						}
						simrt.SetScope(c.label())
						got[i][j] = doVerify(fx, pr.Obj, c.Wit)
						continue
					}
					got[i][j] = doCall(fx, c, shared)
				}
			})
		}
		if otherProg != nil {
			n++
			simrt.Go(func() {
				defer func() { done <- struct{}{} }()
				ccs, err := compileProg(otherProg, be, curve)
				if err != nil {
					bgErr = "background compile failed: " + err.Error()
					return
				}
				if b := toBytes(ccs); !bytes.Equal(b, otherBytes) {
					bgErr = fmt.Sprintf("background compilation produced different bytes (%d vs %d, h=%x vs %x)", len(b), len(otherBytes), hash64(string(b)), hash64(string(otherBytes)))
				}
			})
		}
		if bgRegister {
			n++
			simrt.Go(func() {
				defer func() { done <- struct{}{} }()
				for k := 0; k < 3; k++ {
					regCounter++
					id := solver.HintID(0x7e000000 + uint32(regCounter))
					solver.RegisterNamedHint(func(q *big.Int, in, out []*big.Int) error { return nil }, id)
					if solver.GetRegisteredHint(id) == nil {
						bgErr = "registered hint not found"
					}
				}
			})
		}
		for i := 0; i < n; i++ {
			<-done
			simrt.Yield("harness:joined")
		}
		// previous calls must leave nothing behind
		post = doCall(fx, postCall, nil)
	})

	o.Sims = append(o.Sims, res)
	o.probe("policy:" + simrt.PolicyNames[cfg.Policy])
	if fx.Prog.HasLookup() {
		o.probe("system_with_lookup")
	}
	if len(fx.Prog.Commits) > 0 && anyProve {
		o.probe("prove_with_commitment")
	}
	if res.Leaked > 0 {
		o.probeN("leaked_tasks", res.Leaked)
	}
	where := beNames[be]
	if solverOnly {
		where = "solver"
	}
	tag := ""
	if fx.Prog.HasLookup() && nclients > 1 {
		tag = "+lookup"
	}
	if simViolation(o, &res, where+tag) {
		o.Viol.Msg += "\ncase: " + o.Desc + "\nprog: " + fx.Prog.String()
		return o
	}
	anon := w.ent.Anon() - ent0
	if anon > 0 {
		o.probeN("entropy_draws_outside_tasks", int(anon))
	}
	for i := range clients {
		for j, c := range clients[i] {
			o.Evals++
			g, e := got[i][j], expected[i][j]
			if g == nil {
				o.violate("no-result", "no-result:"+where, fmt.Sprintf("client %d call %s did not return", i, c.label()))
				return o
			}
			ok := g.equal(e)
			if !ok && g.ErrClass == "" && e.ErrClass == "" && (anon > 0 || e.Ambiguous || g.Ambiguous) {
				// some draw of this call had a schedule-dependent identity (same code path drawing
				// from two goroutines, or a goroutine the scheduler does not own): bytes are not
				// comparable; the proof is still verified below
				ok = true
				o.probe("result_bytes_not_compared")
				if (c.Kind == ckProve || c.Kind == ckProveVerify) && g.Obj != nil {
					if v := doVerify(fx, g.Obj, c.Wit); v.ErrClass != "" {
						o.violate("concurrent-proof-rejected", "concurrent-proof-rejected:"+where+tag, fmt.Sprintf("client %d %s: %s", i, c.label(), v.Err))
						return o
					}
				}
			} else if g.ErrClass == "" {
				o.probe("result_bytes_compared")
			}
			if !ok {
				kind := "result-differs-from-solo"
				o.violate(kind, fmt.Sprintf("%s:%s:%s%s", kind, where, ckNames[c.Kind], tag),
					fmt.Sprintf("client %d call %s: concurrent=%s solo=%s\ncase: %s\nprog: %s", i, c.label(), g.short(), e.short(), o.Desc, fx.Prog))
				o.Viol.Trace = res.Trace
				return o
			}
			if c.Kind == ckProve && g.ErrClass == "" && g.Obj != nil && (i+j)%2 == 0 {
				// proofs made concurrently must verify
				if v := doVerify(fx, g.Obj, c.Wit); v.ErrClass != "" {
					o.violate("concurrent-proof-rejected", "concurrent-proof-rejected:"+where+tag, fmt.Sprintf("client %d %s: %s", i, c.label(), v.Err))
					return o
				}
			}
		}
	}
	if bgErr != "" {
		o.violate("background", "background:"+strings.SplitN(bgErr, " ", 3)[1], bgErr)
		return o
	}
	o.Evals++
	if e := w.soloResult(fx, postCall, o); post == nil || (!post.equal(e) && !(post.ErrClass == "" && e.ErrClass == "" && (post.Ambiguous || e.Ambiguous))) {
		ps := "<nil>"
		if post != nil {
			ps = post.short()
		}
		o.violate("state-left-behind", "state-left-behind:"+where+tag, fmt.Sprintf("solve after the concurrent calls returned %s, solo %s\ncase: %s", ps, e.short(), o.Desc))
		return o
	}
	if o.Sample == nil {
		o.Sample = map[string]any{"case": o.Desc, "policy": simrt.PolicyNames[cfg.Policy], "steps": res.Steps, "tasks": res.Tasks, "constraints": fx.NbCons}
	}
	return o
}

var regCounter int

func init() {
	register(&Engine{Name: "c10", Prop: "C10", Run: c10Run})
}
