package harness

import (
	"bytes"
	"fmt"
	"io"
	"reflect"
	"runtime/debug"
	"strings"

	"github.com/consensys/gnark-crypto/ecc"
	"github.com/consensys/gnark/backend/groth16"
	"github.com/consensys/gnark/backend/plonk"
	"github.com/consensys/gnark/backend/witness"
	"verifsim/simrt"
)

// Helpers shared by the stream (S4) and wire (S5) engines: artefacts cross the boundary
// only as the real serialised bytes; structure is learned from the writer log (the
// gnark-crypto encoder issues one Write per element / length prefix).

func newProof(be int, curve ecc.ID) io.ReaderFrom {
	if be == beGroth16 {
		return groth16.NewProof(curve)
	}
	return plonk.NewProof(curve)
}

// encode serialises x with WriteTo (raw=false) or WriteRawTo (raw=true) into a recording writer.
func encode(x any, raw bool) (*simrt.Writer, error) {
	w := simrt.NewWriter()
	var err error
	if raw {
		rw, ok := x.(interface {
			WriteRawTo(io.Writer) (int64, error)
		})
		if !ok {
			return nil, fmt.Errorf("%T has no raw encoding", x)
		}
		_, err = rw.WriteRawTo(w)
	} else {
		_, err = x.(io.WriterTo).WriteTo(w)
	}
	return w, err
}

// guard runs f and converts a panic into a message (with the first gnark frame).
func guard(f func()) (panicked string) {
	defer func() {
		if r := recover(); r != nil {
			panicked = fmt.Sprintf("%v\n%s", r, trimHarnessStack(string(debug.Stack())))
		}
	}()
	f()
	return ""
}

func trimHarnessStack(s string) string {
	lines := strings.Split(s, "\n")
	var out []string
	for _, l := range lines {
		if strings.Contains(l, "runtime/debug") || strings.Contains(l, "debug.Stack") {
			continue
		}
		out = append(out, l)
		if len(out) > 30 {
			break
		}
	}
	return strings.Join(out, "\n")
}

// decodeProof decodes bytes into a fresh proof object through r.
func decodeProof(be int, curve ecc.ID, r io.Reader) (proof any, n int64, err error, panicked string) {
	p := newProof(be, curve)
	panicked = guard(func() { n, err = p.ReadFrom(r) })
	return p, n, err, panicked
}

func verifyAny(be int, proof any, vk any, pub witness.Witness) (err error, panicked string) {
	panicked = guard(func() {
		if be == beGroth16 {
			err = groth16.Verify(proof.(groth16.Proof), vk.(groth16.VerifyingKey), pub)
		} else {
			err = plonk.Verify(proof.(plonk.Proof), vk.(plonk.VerifyingKey), pub)
		}
	})
	return
}

// cloneProof deep-copies a proof through its raw encoding.
func cloneProof(be int, curve ecc.ID, proof any) (any, error) {
	w, err := encode(proof, true)
	if err != nil {
		if w, err = encode(proof, false); err != nil {
			return nil, err
		}
	}
	p := newProof(be, curve)
	if _, err := p.ReadFrom(bytes.NewReader(w.Buf)); err != nil {
		return nil, err
	}
	return p, nil
}

// sliceFields returns the paths of the variable-length parts of a proof object.
func sliceFields(v reflect.Value, path string, out *[]string) {
	if v.Kind() == reflect.Ptr || v.Kind() == reflect.Interface {
		if !v.IsNil() {
			sliceFields(v.Elem(), path, out)
		}
		return
	}
	switch v.Kind() {
	case reflect.Struct:
		if v.CanAddr() {
			if _, ok := v.Addr().Interface().(marshaler); ok {
				return
			}
		}
		for i := 0; i < v.NumField(); i++ {
			if !v.Type().Field(i).IsExported() {
				continue
			}
			p := v.Type().Field(i).Name
			if path != "" {
				p = path + "." + p
			}
			sliceFields(v.Field(i), p, out)
		}
	case reflect.Slice:
		*out = append(*out, path)
	}
}

func fieldByPath(v reflect.Value, path string) reflect.Value {
	for v.Kind() == reflect.Ptr || v.Kind() == reflect.Interface {
		v = v.Elem()
	}
	for _, part := range strings.Split(path, ".") {
		v = v.FieldByName(part)
		for v.Kind() == reflect.Ptr || v.Kind() == reflect.Interface {
			v = v.Elem()
		}
	}
	return v
}

// leafRefs returns addressable reflect values of every marshalable leaf (group / field element).
func leafRefs(v reflect.Value, path string, out *[]leafRef) {
	if v.Kind() == reflect.Ptr || v.Kind() == reflect.Interface {
		if !v.IsNil() {
			leafRefs(v.Elem(), path, out)
		}
		return
	}
	if v.CanAddr() {
		if _, ok := v.Addr().Interface().(marshaler); ok {
			*out = append(*out, leafRef{path, v})
			return
		}
	}
	switch v.Kind() {
	case reflect.Struct:
		for i := 0; i < v.NumField(); i++ {
			if !v.Type().Field(i).IsExported() {
				continue
			}
			p := v.Type().Field(i).Name
			if path != "" {
				p = path + "." + p
			}
			leafRefs(v.Field(i), p, out)
		}
	case reflect.Slice, reflect.Array:
		for i := 0; i < v.Len(); i++ {
			leafRefs(v.Index(i), fmt.Sprintf("%s[%d]", path, i), out)
		}
	}
}

type leafRef struct {
	Path string
	V    reflect.Value
}

func leavesOf(x any) []leafRef {
	var out []leafRef
	leafRefs(reflect.ValueOf(x), "", &out)
	return out
}

func (l leafRef) bytes() []byte { return l.V.Addr().Interface().(marshaler).Marshal() }

// publicVector returns the public witness values as serialised bytes elements (for edits).
func witnessBytes(w witness.Witness) []byte {
	b, _ := w.MarshalBinary()
	return b
}

func readWitness(curve ecc.ID, b []byte, viaUnmarshal bool) (w witness.Witness, err error, panicked string) {
	panicked = guard(func() {
		w, err = witness.New(curve.ScalarField())
		if err != nil {
			return
		}
		if viaUnmarshal {
			err = w.UnmarshalBinary(b)
		} else {
			_, err = w.ReadFrom(bytes.NewReader(b))
		}
	})
	return
}
