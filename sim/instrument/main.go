// verif-instrument rewrites a scratch copy of gnark in place so that the simulator owns
// scheduling (S1) and map iteration order (S3).
//
// Pass A (typed, go/packages): textual insertions driven by the typed AST: yields before
// sends / closes / locks / waits / atomics, spawn tickets around go statements and
// errgroup.Go, lock bookkeeping, receive wrappers, entry yields for listed functions, and
// the map-order rewrite of `for ... range m`.
// Pass B (syntax only, innermost first): every select becomes tape-ordered polling of its
// cases, a blocking fallback, and a dispatch switch.
//
// All edits stay on the original source line, so line numbers do not move. Both passes are
// deterministic functions of the tree.
package main

import (
	"bufio"
	"bytes"
	"encoding/json"
	"flag"
	"fmt"
	"go/ast"
	"go/parser"
	"go/token"
	"go/types"
	"os"
	"path/filepath"
	"sort"
	"strings"

	"golang.org/x/tools/go/packages"
)

type edit struct {
	pos  int // byte offset
	del  int // bytes to delete
	text string
	ord  int
}

type fileEdits struct {
	name  string
	src   []byte
	edits []edit
	n     int
}

func (f *fileEdits) ins(off int, text string) {
	f.edits = append(f.edits, edit{off, 0, text, len(f.edits)})
}
func (f *fileEdits) repl(off, del int, text string) {
	f.edits = append(f.edits, edit{off, del, text, len(f.edits)})
}

var simPath = "verifsim/simrt"

var stats = map[string]int{}
var missingYieldFuncs = map[string]bool{}
var hotFuncs = map[string]bool{}

func main() {
	dir := flag.String("dir", "", "scratch copy of gnark")
	yp := flag.String("yieldpoints", "", "file listing functions ([pkg.][Recv.]Name) that yield at entry")
	statsOut := flag.String("stats", "", "write instrumentation statistics (JSON) here")
	noMaps := flag.Bool("nomaps", false, "do not rewrite map iteration")
	flag.Parse()
	abs, err := filepath.Abs(*dir)
	if err != nil {
		fatal(err)
	}
	*dir = abs
	yieldFuncs := map[string]bool{}
	if *yp != "" {
		f, err := os.Open(*yp)
		if err != nil {
			fatal(err)
		}
		sc := bufio.NewScanner(f)
		for sc.Scan() {
			l := strings.TrimSpace(sc.Text())
			if i := strings.Index(l, "#"); i >= 0 {
				l = strings.TrimSpace(l[:i])
			}
			if l != "" {
				hot := strings.HasPrefix(l, "~")
				l = strings.TrimPrefix(l, "~")
				yieldFuncs[l] = true
				hotFuncs[l] = hot
				missingYieldFuncs[l] = true
			}
		}
		f.Close()
	}
	pats := flag.Args()
	if len(pats) == 0 {
		pats = []string{"./..."}
	}
	cfg := &packages.Config{Mode: packages.NeedName | packages.NeedFiles | packages.NeedSyntax | packages.NeedTypes | packages.NeedTypesInfo | packages.NeedImports | packages.NeedDeps | packages.NeedCompiledGoFiles,
		Dir: *dir, Tests: false, BuildFlags: []string{"-tags=verif"}}
	pkgs, err := packages.Load(cfg, pats...)
	if err != nil {
		fatal(err)
	}
	sort.Slice(pkgs, func(i, j int) bool { return pkgs[i].PkgPath < pkgs[j].PkgPath })
	var touched []string
	for _, p := range pkgs {
		if len(p.Errors) > 0 {
			for _, e := range p.Errors {
				fmt.Fprintln(os.Stderr, "load error:", e)
			}
			os.Exit(2)
		}
		if strings.Contains(p.PkgPath, "/internal/generator") || strings.Contains(p.PkgPath, "/icicle") {
			continue
		}
		for i, f := range p.Syntax {
			fn := p.CompiledGoFiles[i]
			if !strings.HasPrefix(fn, *dir+"/") || strings.HasSuffix(fn, "_test.go") {
				continue
			}
			src, err := os.ReadFile(fn)
			if err != nil {
				fatal(err)
			}
			fe := &fileEdits{name: fn, src: src}
			instrumentFile(p, f, fe, yieldFuncs, !*noMaps)
			if len(fe.edits) == 0 {
				continue
			}
			out := apply(fe)
			out = addImport(out)
			// pass B
			out = rewriteSelects(fn, out)
			if _, err := parser.ParseFile(token.NewFileSet(), fn, out, 0); err != nil {
				fatal(fmt.Errorf("instrumented file does not parse: %v", err))
			}
			if err := os.WriteFile(fn, out, 0o644); err != nil {
				fatal(err)
			}
			touched = append(touched, strings.TrimPrefix(fn, *dir+"/"))
			stats["files"]++
		}
	}
	var missing []string
	for k := range missingYieldFuncs {
		missing = append(missing, k)
	}
	sort.Strings(missing)
	rep := map[string]any{"stats": stats, "files": touched, "yieldpoints_not_found": missing}
	b, _ := json.MarshalIndent(rep, "", " ")
	if *statsOut != "" {
		os.WriteFile(*statsOut, b, 0o644)
	} else {
		fmt.Println(string(b))
	}
}

func fatal(err error) {
	fmt.Fprintln(os.Stderr, "verif-instrument:", err)
	os.Exit(2)
}

func addImport(src []byte) []byte {
	s := string(src)
	idx := strings.Index(s, "\npackage ")
	if strings.HasPrefix(s, "package ") {
		idx = -1
	}
	start := idx + 1
	eol := strings.Index(s[start:], "\n")
	line := s[start : start+eol]
	// a trailing line comment on the package clause would swallow the import
	if i := strings.Index(line, "//"); i >= 0 {
		eol = i
	}
	return []byte(s[:start+eol] + "; import _simrt \"" + simPath + "\"" + s[start+eol:])
}

func apply(fe *fileEdits) []byte {
	sort.SliceStable(fe.edits, func(i, j int) bool {
		if fe.edits[i].pos != fe.edits[j].pos {
			return fe.edits[i].pos < fe.edits[j].pos
		}
		return fe.edits[i].ord < fe.edits[j].ord
	})
	var out []byte
	last := 0
	for _, e := range fe.edits {
		if e.pos < last {
			fatal(fmt.Errorf("overlapping edits in %s at %d", fe.name, e.pos))
		}
		out = append(out, fe.src[last:e.pos]...)
		out = append(out, e.text...)
		last = e.pos + e.del
	}
	out = append(out, fe.src[last:]...)
	return out
}

func isSyncMethod(info *types.Info, call *ast.CallExpr) (recvType, method string, ok bool) {
	sel, ok2 := call.Fun.(*ast.SelectorExpr)
	if !ok2 {
		return "", "", false
	}
	obj, ok2 := info.Uses[sel.Sel].(*types.Func)
	if !ok2 || obj.Pkg() == nil {
		return "", "", false
	}
	sig := obj.Type().(*types.Signature)
	pkg := obj.Pkg().Path()
	if sig.Recv() == nil {
		if pkg == "sync/atomic" {
			return "sync/atomic", obj.Name(), true
		}
		return "", "", false
	}
	t := sig.Recv().Type()
	if pt, ok := t.(*types.Pointer); ok {
		t = pt.Elem()
	}
	nt, ok2 := t.(*types.Named)
	if !ok2 {
		return "", "", false
	}
	if pkg == "sync" || pkg == "golang.org/x/sync/errgroup" || pkg == "sync/atomic" {
		return pkg + "." + nt.Obj().Name(), obj.Name(), true
	}
	return "", "", false
}

func instrumentFile(p *packages.Package, f *ast.File, fe *fileEdits, yieldFuncs map[string]bool, doMaps bool) {
	fset := p.Fset
	off := func(pos token.Pos) int { return fset.Position(pos).Offset }
	info := p.TypesInfo
	base := filepath.Base(fe.name)
	dirb := filepath.Base(filepath.Dir(fe.name))
	site := func(pos token.Pos, kind string) string {
		ps := fset.Position(pos)
		return fmt.Sprintf("%q", fmt.Sprintf("%s:%s/%s:%d", kind, dirb, base, ps.Line))
	}
	text := func(n ast.Node) string { return string(fe.src[off(n.Pos()):off(n.End())]) }
	// receive / send expressions that are select comm headers are handled by pass B
	commRecv := map[ast.Node]bool{}
	commSend := map[ast.Node]bool{}
	ast.Inspect(f, func(n ast.Node) bool {
		if cc, ok := n.(*ast.CommClause); ok && cc.Comm != nil {
			switch s := cc.Comm.(type) {
			case *ast.ExprStmt:
				commRecv[s.X] = true
			case *ast.AssignStmt:
				commRecv[s.Rhs[0]] = true
			case *ast.SendStmt:
				commSend[s] = true
			}
		}
		return true
	})
	var walkStmtList func(list []ast.Stmt)
	headerHas := func(s ast.Stmt) (before bool, kinds []string) {
		var visit func(n ast.Node) bool
		visit = func(n ast.Node) bool {
			switch x := n.(type) {
			case *ast.BlockStmt, *ast.FuncLit, *ast.CaseClause, *ast.CommClause:
				return false
			case *ast.SendStmt:
				if !commSend[x] {
					before = true
					kinds = append(kinds, "send")
				}
			case *ast.CallExpr:
				if id, ok := x.Fun.(*ast.Ident); ok && id.Name == "close" {
					if _, isB := info.Uses[id].(*types.Builtin); isB {
						before = true
						kinds = append(kinds, "close")
					}
				}
				if rt, m, ok := isSyncMethod(info, x); ok {
					if strings.HasPrefix(rt, "sync/atomic") {
						before = true
						kinds = append(kinds, "atomic."+m)
						break
					}
					switch m {
					case "Lock", "RLock", "Wait", "Done", "Add", "Do", "Get", "Put", "Go", "Load", "Store", "LoadOrStore", "Range", "Delete", "TryLock":
						before = true
						kinds = append(kinds, strings.TrimPrefix(rt, "golang.org/x/sync/")+"."+m)
					}
				}
			}
			return true
		}
		switch st := s.(type) {
		case *ast.IfStmt:
			if st.Init != nil {
				ast.Inspect(st.Init, visit)
			}
			ast.Inspect(st.Cond, visit)
		case *ast.ForStmt:
			if st.Init != nil {
				ast.Inspect(st.Init, visit)
			}
		case *ast.RangeStmt:
			ast.Inspect(st.X, visit)
		case *ast.SwitchStmt:
			if st.Init != nil {
				ast.Inspect(st.Init, visit)
			}
			if st.Tag != nil {
				ast.Inspect(st.Tag, visit)
			}
		case *ast.BlockStmt, *ast.SelectStmt, *ast.TypeSwitchStmt, *ast.LabeledStmt:
		case *ast.DeferStmt:
		case *ast.GoStmt:
			for _, a := range st.Call.Args {
				ast.Inspect(a, visit)
			}
		default:
			ast.Inspect(s, visit)
		}
		return
	}
	var walkStmt func(s ast.Stmt)
	handleLockStmt := func(s ast.Stmt) {
		switch st := s.(type) {
		case *ast.ExprStmt:
			if call, ok := st.X.(*ast.CallExpr); ok {
				if rt, m, ok := isSyncMethod(info, call); ok {
					switch {
					case (rt == "sync.Mutex" || rt == "sync.RWMutex") && (m == "Lock" || m == "RLock"):
						fe.ins(off(s.End()), "; _simrt.LockAcquired()")
						stats["lock"]++
					case (rt == "sync.Mutex" || rt == "sync.RWMutex") && (m == "Unlock" || m == "RUnlock"):
						fe.ins(off(s.End()), "; _simrt.LockReleased(); _simrt.Yield("+site(s.Pos(), "unlock")+")")
						stats["unlock"]++
					case rt == "sync.Once" && m == "Do":
						// a task parked inside once.Do would block others non-durably
						fe.ins(off(s.Pos()), "_simrt.LockAcquired(); ")
						fe.ins(off(s.End()), "; _simrt.LockReleased()")
						stats["once.Do"]++
					}
				}
			}
		case *ast.DeferStmt:
			if rt, m, ok := isSyncMethod(info, st.Call); ok && (rt == "sync.Mutex" || rt == "sync.RWMutex") && (m == "Unlock" || m == "RUnlock") {
				fe.ins(off(st.Call.Pos()), "func() { ")
				fe.ins(off(st.Call.End()), "; _simrt.LockReleased() }()")
				stats["deferunlock"]++
			}
		}
	}
	walkStmtList = func(list []ast.Stmt) {
		for _, s := range list {
			inner := s
			for {
				if l, ok := inner.(*ast.LabeledStmt); ok {
					inner = l.Stmt
					continue
				}
				break
			}
			if before, kinds := headerHas(inner); before {
				// a yield before a labeled statement goes before the label
				fn := "Yield"
				if strings.HasPrefix(kinds[0], "atomic.") {
					fn = "YieldHot"
					for _, k := range kinds {
						if !strings.HasPrefix(k, "atomic.") {
							fn = "Yield"
						}
					}
				}
				fe.ins(off(s.Pos()), "_simrt."+fn+"("+site(s.Pos(), kinds[0])+"); ")
				stats["yield_before"]++
			}
			handleLockStmt(inner)
			walkStmt(s)
		}
	}
	var walkExprFuncLits func(n ast.Node)
	walkExprFuncLits = func(n ast.Node) {
		ast.Inspect(n, func(m ast.Node) bool {
			switch x := m.(type) {
			case *ast.FuncLit:
				walkStmtList(x.Body.List)
				return false
			case *ast.BlockStmt:
				return false
			}
			return true
		})
	}
	mutatesMap := func(body *ast.BlockStmt, mapText string, keyText string) bool {
		found := false
		ast.Inspect(body, func(n ast.Node) bool {
			switch x := n.(type) {
			case *ast.CallExpr:
				if id, ok := x.Fun.(*ast.Ident); ok && (id.Name == "delete" || id.Name == "clear") && len(x.Args) >= 1 {
					if text(x.Args[0]) == mapText {
						// deleting the entry being visited is harmless for a snapshot iteration
						if !(id.Name == "delete" && len(x.Args) == 2 && keyText != "" && text(x.Args[1]) == keyText) {
							found = true
						}
					}
				}
			case *ast.AssignStmt:
				for _, l := range x.Lhs {
					if ie, ok := l.(*ast.IndexExpr); ok && text(ie.X) == mapText {
						found = true
					}
				}
			case *ast.IncDecStmt:
				if ie, ok := x.X.(*ast.IndexExpr); ok && text(ie.X) == mapText {
					found = true
				}
			}
			return !found
		})
		return found
	}
	hasArrowOrLit := func(e ast.Expr) bool {
		bad := false
		ast.Inspect(e, func(n ast.Node) bool {
			switch x := n.(type) {
			case *ast.UnaryExpr:
				if x.Op == token.ARROW {
					bad = true
				}
			case *ast.FuncLit:
				bad = true
			case *ast.CallExpr:
				if _, _, ok := isSyncMethod(info, x); ok {
					bad = true
				}
			}
			return !bad
		})
		return bad
	}
	walkStmt = func(s ast.Stmt) {
		switch st := s.(type) {
		case *ast.BlockStmt:
			walkStmtList(st.List)
		case *ast.IfStmt:
			if st.Init != nil {
				walkExprFuncLits(st.Init)
			}
			walkExprFuncLits(st.Cond)
			walkStmtList(st.Body.List)
			if st.Else != nil {
				walkStmt(st.Else)
			}
		case *ast.ForStmt:
			walkStmtList(st.Body.List)
		case *ast.RangeStmt:
			if t := info.TypeOf(st.X); t != nil {
				switch t.Underlying().(type) {
				case *types.Chan:
					fe.ins(off(st.Body.Lbrace)+1, " _simrt.Yield("+site(st.Pos(), "rangerecv")+"); ")
					fe.ins(off(st.End()), "; _simrt.Yield("+site(st.End(), "rangedone")+")")
					stats["rangechan"]++
				case *types.Map:
					if !doMaps {
						break
					}
					mt := text(st.X)
					kt := ""
					if st.Key != nil {
						kt = text(st.Key)
					}
					if hasArrowOrLit(st.X) || mutatesMap(st.Body, mt, kt) {
						stats["maprange_skipped"]++
						break
					}
					fe.n++
					kv := fmt.Sprintf("_simkv%d", fe.n)
					var bind string
					keyName, valName := "", ""
					if st.Key != nil {
						if id, ok := st.Key.(*ast.Ident); !ok || id.Name != "_" {
							keyName = text(st.Key)
						}
					}
					if st.Value != nil {
						if id, ok := st.Value.(*ast.Ident); !ok || id.Name != "_" {
							valName = text(st.Value)
						}
					}
					op := ":="
					if st.Tok == token.ASSIGN {
						op = "="
					}
					switch {
					case keyName != "" && valName != "":
						bind = fmt.Sprintf(" %s, %s %s %s.K, %s.V;", keyName, valName, op, kv, kv)
					case keyName != "":
						bind = fmt.Sprintf(" %s %s %s.K;", keyName, op, kv)
					case valName != "":
						bind = fmt.Sprintf(" %s %s %s.V;", valName, op, kv)
					}
					if keyName == "" && valName == "" {
						kv = "_"
					}
					hdr := fmt.Sprintf("for _, %s := range _simrt.MapPairs(%s, %s) {%s", kv, mt, site(st.Pos(), "maprange"), bind)
					if kv == "_" {
						hdr = fmt.Sprintf("for range _simrt.MapPairs(%s, %s) {", mt, site(st.Pos(), "maprange"))
					}
					fe.repl(off(st.For), off(st.Body.Lbrace)+1-off(st.For), hdr)
					stats["maprange"]++
				}
			}
			walkStmtList(st.Body.List)
		case *ast.SwitchStmt:
			for _, c := range st.Body.List {
				walkStmtList(c.(*ast.CaseClause).Body)
			}
		case *ast.TypeSwitchStmt:
			for _, c := range st.Body.List {
				walkStmtList(c.(*ast.CaseClause).Body)
			}
		case *ast.SelectStmt:
			stats["select"]++
			for _, c := range st.Body.List {
				walkStmtList(c.(*ast.CommClause).Body)
			}
		case *ast.LabeledStmt:
			walkStmt(st.Stmt)
		case *ast.GoStmt:
			fe.n++
			tk := fmt.Sprintf("_simtk%d", fe.n)
			stats["go"]++
			if fl, ok := st.Call.Fun.(*ast.FuncLit); ok {
				fe.ins(off(st.Pos()), tk+" := _simrt.Spawn(); ")
				fe.ins(off(fl.Body.Lbrace)+1, " _simrt.Enter("+tk+"); defer _simrt.Exit("+tk+"); ")
				walkStmtList(fl.Body.List)
				for _, a := range st.Call.Args {
					walkExprFuncLits(a)
				}
			} else {
				var sb strings.Builder
				sb.WriteString("{ " + tk + " := _simrt.Spawn(); ")
				fun := text(st.Call.Fun)
				sb.WriteString(fmt.Sprintf("_simf%d := %s; ", fe.n, fun))
				var args []string
				for i, a := range st.Call.Args {
					an := fmt.Sprintf("_sima%d_%d", fe.n, i)
					sb.WriteString(fmt.Sprintf("%s := %s; ", an, text(a)))
					if i == len(st.Call.Args)-1 && st.Call.Ellipsis.IsValid() {
						an += "..."
					}
					args = append(args, an)
				}
				sb.WriteString(fmt.Sprintf("go func() { _simrt.Enter(%s); defer _simrt.Exit(%s); _simf%d(%s) }() }", tk, tk, fe.n, strings.Join(args, ", ")))
				fe.repl(off(st.Pos()), off(st.End())-off(st.Pos()), sb.String())
				stats["go_call"]++
				return
			}
		case *ast.DeferStmt:
			walkExprFuncLits(st.Call)
		default:
			walkExprFuncLits(s)
		}
	}
	// go statements with a non-literal callee are replaced wholesale; expression-level
	// rewrites inside them must be skipped
	replaced := map[ast.Node]bool{}
	ast.Inspect(f, func(n ast.Node) bool {
		if g, ok := n.(*ast.GoStmt); ok {
			if _, isLit := g.Call.Fun.(*ast.FuncLit); !isLit {
				replaced[g] = true
			}
		}
		return true
	})
	for _, d := range f.Decls {
		fd, ok := d.(*ast.FuncDecl)
		if !ok || fd.Body == nil {
			continue
		}
		name := fd.Name.Name
		full := name
		if fd.Recv != nil && len(fd.Recv.List) > 0 {
			t := fd.Recv.List[0].Type
			if se, ok := t.(*ast.StarExpr); ok {
				t = se.X
			}
			if ie, ok := t.(*ast.IndexExpr); ok {
				t = ie.X
			}
			if id, ok := t.(*ast.Ident); ok {
				full = id.Name + "." + name
			}
		}
		for _, key := range []string{full, p.Name + "." + full} {
			if yieldFuncs[key] {
				delete(missingYieldFuncs, key)
				fn := "Yield"
				if hotFuncs[key] {
					fn = "YieldHot"
				}
				fe.ins(off(fd.Body.Lbrace)+1, " _simrt."+fn+"("+site(fd.Pos(), "entry:"+full)+"); ")
				stats["entry"]++
				break
			}
		}
		walkStmtList(fd.Body.List)
	}
	// expression-level rewrites: receives, errgroup.Go argument, Wait results
	var inspect func(n ast.Node) bool
	inspect = func(n ast.Node) bool {
		if replaced[n] {
			return false
		}
		switch x := n.(type) {
		case *ast.UnaryExpr:
			if x.Op == token.ARROW && !commRecv[x] {
				fe.repl(off(x.Pos()), off(x.X.Pos())-off(x.Pos()), "_simrt.Recv(")
				fe.ins(off(x.End()), ", "+site(x.Pos(), "recv")+")")
				stats["recv"]++
			}
		case *ast.AssignStmt:
			if len(x.Lhs) == 2 && len(x.Rhs) == 1 {
				if u, ok := x.Rhs[0].(*ast.UnaryExpr); ok && u.Op == token.ARROW && !commRecv[u] {
					commRecv[u] = true
					fe.repl(off(u.Pos()), off(u.X.Pos())-off(u.Pos()), "_simrt.Recv2(")
					fe.ins(off(u.End()), ", "+site(u.Pos(), "recv")+")")
					stats["recv2"]++
				}
			}
		case *ast.ValueSpec:
			if len(x.Names) == 2 && len(x.Values) == 1 {
				if u, ok := x.Values[0].(*ast.UnaryExpr); ok && u.Op == token.ARROW && !commRecv[u] {
					commRecv[u] = true
					fe.repl(off(u.Pos()), off(u.X.Pos())-off(u.Pos()), "_simrt.Recv2(")
					fe.ins(off(u.End()), ", "+site(u.Pos(), "recv")+")")
					stats["recv2"]++
				}
			}
		case *ast.CallExpr:
			if rt, m, ok := isSyncMethod(info, x); ok {
				if rt == "golang.org/x/sync/errgroup.Group" && m == "Go" && len(x.Args) == 1 {
					fe.ins(off(x.Args[0].Pos()), "_simrt.WrapErr(")
					fe.ins(off(x.Args[0].End()), ")")
					stats["errgroup.Go"]++
				}
				if rt == "golang.org/x/sync/errgroup.Group" && m == "Wait" {
					fe.ins(off(x.Pos()), "_simrt.After(")
					fe.ins(off(x.End()), ", "+site(x.Pos(), "errgroup.waited")+")")
					stats["errgroup.Wait"]++
				}
			}
		case *ast.ExprStmt:
			if call, ok := x.X.(*ast.CallExpr); ok {
				if rt, m, ok := isSyncMethod(info, call); ok && rt == "sync.WaitGroup" && m == "Wait" {
					fe.ins(off(x.End()), "; _simrt.Yield("+site(x.Pos(), "wg.waited")+")")
					stats["wg.Wait"]++
				}
			}
		}
		return true
	}
	ast.Inspect(f, inspect)
}

// ---------------------------------------------------------------------------------------
// pass B: select rewrite

const mark = "/*simsel*/"

func rewriteSelects(fn string, src []byte) []byte {
	if !bytes.Contains(src, []byte("select")) {
		return src
	}
	for round := 0; round < 30; round++ {
		out, k := rewriteOnce(fn, src)
		if k == 0 {
			break
		}
		stats["select_rewritten"] += k
		src = out
	}
	return src
}

func rewriteOnce(fn string, src []byte) ([]byte, int) {
	fset := token.NewFileSet()
	f, err := parser.ParseFile(fset, fn, src, parser.ParseComments)
	if err != nil {
		fatal(fmt.Errorf("pass B: %s: %v", fn, err))
	}
	off := func(p token.Pos) int { return fset.Position(p).Offset }
	text := func(n ast.Node) string { return string(src[off(n.Pos()):off(n.End())]) }
	isMarked := func(s *ast.SelectStmt) bool {
		o := off(s.Pos())
		return o >= len(mark) && string(src[o-len(mark):o]) == mark
	}
	var all []*ast.SelectStmt
	labeled := map[*ast.SelectStmt]bool{}
	ast.Inspect(f, func(n ast.Node) bool {
		if l, ok := n.(*ast.LabeledStmt); ok {
			if s, ok := l.Stmt.(*ast.SelectStmt); ok {
				labeled[s] = true
			}
		}
		if s, ok := n.(*ast.SelectStmt); ok && !isMarked(s) && len(s.Body.List) > 0 {
			all = append(all, s)
		}
		return true
	})
	var cands []*ast.SelectStmt
	for _, s := range all {
		inner := false
		ast.Inspect(s.Body, func(n ast.Node) bool {
			if t, ok := n.(*ast.SelectStmt); ok && !isMarked(t) && len(t.Body.List) > 0 {
				inner = true
			}
			return !inner
		})
		if !inner {
			if labeled[s] {
				fatal(fmt.Errorf("labeled select not supported: %s", fset.Position(s.Pos())))
			}
			cands = append(cands, s)
		}
	}
	if len(cands) == 0 {
		return src, 0
	}
	base := filepath.Base(fn)
	dirb := filepath.Base(filepath.Dir(fn))
	out := append([]byte(nil), src...)
	for i := len(cands) - 1; i >= 0; i-- {
		s := cands[i]
		id := off(s.Pos())
		line := fset.Position(s.Pos()).Line
		site := fmt.Sprintf("%q", fmt.Sprintf("select:%s/%s:%d", dirb, base, line))
		wsite := fmt.Sprintf("%q", fmt.Sprintf("selwake:%s/%s:%d", dirb, base, line))
		var pre, poll, block, disp strings.Builder
		k := 0
		hasDefault := false
		var defBody string
		for _, c := range s.Body.List {
			cc := c.(*ast.CommClause)
			body := ""
			if len(cc.Body) > 0 {
				body = string(src[off(cc.Body[0].Pos()):off(cc.Body[len(cc.Body)-1].End())])
			}
			if cc.Comm == nil {
				hasDefault = true
				defBody = body
				continue
			}
			chv := fmt.Sprintf("_sch%d_%d", id, k)
			var hdr, bind string
			switch st := cc.Comm.(type) {
			case *ast.ExprStmt:
				u := st.X.(*ast.UnaryExpr)
				fmt.Fprintf(&pre, "%s := %s; ", chv, text(u.X))
				hdr = "<-" + chv
			case *ast.AssignStmt:
				u := st.Rhs[0].(*ast.UnaryExpr)
				fmt.Fprintf(&pre, "%s := %s; ", chv, text(u.X))
				var lhs []string
				for _, l := range st.Lhs {
					lhs = append(lhs, text(l))
				}
				if st.Tok == token.DEFINE {
					tv := fmt.Sprintf("_srv%d_%d", id, k)
					tk := fmt.Sprintf("_srk%d_%d", id, k)
					fmt.Fprintf(&pre, "%s := _simrt.ZeroOf(%s); _ = %s; ", tv, chv, tv)
					names := []string{tv}
					if len(lhs) == 2 {
						fmt.Fprintf(&pre, "%s := false; _ = %s; ", tk, tk)
						names = append(names, tk)
					}
					for i, l := range lhs {
						if l != "_" {
							bind += fmt.Sprintf("%s := %s; _ = %s; ", l, names[i], l)
						}
					}
					lhs = names
				}
				hdr = strings.Join(lhs, ", ") + " = <-" + chv
			case *ast.SendStmt:
				fmt.Fprintf(&pre, "%s := %s; _ssv%d_%d := %s; ", chv, text(st.Chan), id, k, text(st.Value))
				hdr = fmt.Sprintf("%s <- _ssv%d_%d", chv, id, k)
			}
			fmt.Fprintf(&poll, "case %d: %sselect { case %s: _ssel%d = %d; default: }; ", k, mark, hdr, id, k)
			fmt.Fprintf(&block, "case %s: _ssel%d = %d; ", hdr, id, k)
			fmt.Fprintf(&disp, "case %d:\n%s%s\n", k, bind, body)
			k++
		}
		var sb strings.Builder
		fmt.Fprintf(&sb, "{ _ssel%d := -1; %s", id, pre.String())
		fmt.Fprintf(&sb, "for _, _si := range _simrt.SelectOrder(%d, %s) { if _ssel%d >= 0 { break }; switch _si { %s} }; ", k, site, id, poll.String())
		if hasDefault {
			fmt.Fprintf(&sb, "if _ssel%d < 0 { _ssel%d = %d }; ", id, id, k)
			fmt.Fprintf(&disp, "case %d:\n%s\n", k, defBody)
		} else {
			fmt.Fprintf(&sb, "if _ssel%d < 0 { %sselect { %s} }; ", id, mark, block.String())
		}
		fmt.Fprintf(&sb, "_simrt.Yield(%s); switch _ssel%d {\n%s} }", wsite, id, disp.String())
		out = append(out[:off(s.Pos())], append([]byte(sb.String()), out[off(s.End()):]...)...)
	}
	return out, len(cands)
}
