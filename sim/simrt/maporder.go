package simrt

import (
	"fmt"
	"reflect"
	"sort"
	"sync/atomic"
)

// Pair is one map entry captured by MapPairs.
type Pair[K comparable, V any] struct {
	K K
	V V
}

var (
	mapIters    atomic.Int64 // map iterations that went through the seam
	mapUnseamed atomic.Int64 // iterations whose key type has no canonical order (pointer keys)
	mapPermuted atomic.Int64 // iterations (len>1) that were given a non-identity permutation
)

// MapStats returns (seamed iterations, unseamed iterations, permuted iterations) since process start.
func MapStats() (int64, int64, int64) {
	return mapIters.Load(), mapUnseamed.Load(), mapPermuted.Load()
}

// mapTape is the tape that decides map order when no scheduler run is active (compilation
// outside a bubble); set with SetMapTape.
var mapTape atomic.Pointer[Tape]

// SetMapTape installs (or with nil removes) the tape deciding map iteration order outside a
// scheduled run.
func SetMapTape(t *Tape) { mapTape.Store(t) }

func canonLess(a, b reflect.Value) (less bool, ok bool) {
	switch a.Kind() {
	case reflect.Int, reflect.Int8, reflect.Int16, reflect.Int32, reflect.Int64:
		return a.Int() < b.Int(), true
	case reflect.Uint, reflect.Uint8, reflect.Uint16, reflect.Uint32, reflect.Uint64, reflect.Uintptr:
		return a.Uint() < b.Uint(), true
	case reflect.String:
		return a.String() < b.String(), true
	case reflect.Bool:
		return !a.Bool() && b.Bool(), true
	case reflect.Array:
		for i := 0; i < a.Len(); i++ {
			l, ok := canonLess(a.Index(i), b.Index(i))
			if !ok {
				return false, false
			}
			if l {
				return true, true
			}
			g, _ := canonLess(b.Index(i), a.Index(i))
			if g {
				return false, true
			}
		}
		return false, true
	case reflect.Struct:
		for i := 0; i < a.NumField(); i++ {
			l, ok := canonLess(a.Field(i), b.Field(i))
			if !ok {
				return false, false
			}
			if l {
				return true, true
			}
			g, _ := canonLess(b.Field(i), a.Field(i))
			if g {
				return false, true
			}
		}
		return false, true
	case reflect.Interface:
		if a.IsNil() || b.IsNil() {
			return a.IsNil() && !b.IsNil(), true
		}
		if a.Elem().Type() != b.Elem().Type() {
			return fmt.Sprint(a.Elem().Type()) < fmt.Sprint(b.Elem().Type()), true
		}
		return canonLess(a.Elem(), b.Elem())
	}
	return false, false
}

func sortable(t reflect.Type) bool {
	switch t.Kind() {
	case reflect.Int, reflect.Int8, reflect.Int16, reflect.Int32, reflect.Int64,
		reflect.Uint, reflect.Uint8, reflect.Uint16, reflect.Uint32, reflect.Uint64, reflect.Uintptr,
		reflect.String, reflect.Bool:
		return true
	case reflect.Array:
		return sortable(t.Elem())
	case reflect.Struct:
		for i := 0; i < t.NumField(); i++ {
			if !sortable(t.Field(i).Type) {
				return false
			}
		}
		return true
	}
	return false
}

// MapPairs returns the entries of m in an order decided by the tape: keys are sorted
// canonically and then permuted (identity, reverse, rotation or full shuffle). Key types with
// no canonical order keep the runtime's order and are counted as unseamed.
func MapPairs[K comparable, V any](m map[K]V, site string) []Pair[K, V] {
	out := make([]Pair[K, V], 0, len(m))
	for k, v := range m {
		out = append(out, Pair[K, V]{k, v})
	}
	if len(out) < 2 {
		return out
	}
	var tape *Tape
	if s := cur.Load(); s != nil && s.active.Load() {
		tape = s.cfg.Tape
	} else {
		tape = mapTape.Load()
	}
	var zk K
	kt := reflect.TypeOf(zk)
	if kt == nil || !sortable(kt) {
		mapUnseamed.Add(1)
		return out
	}
	mapIters.Add(1)
	switch any(zk).(type) {
	case int:
		sort.Slice(out, func(i, j int) bool { return any(out[i].K).(int) < any(out[j].K).(int) })
	case string:
		sort.Slice(out, func(i, j int) bool { return any(out[i].K).(string) < any(out[j].K).(string) })
	case uint32:
		sort.Slice(out, func(i, j int) bool { return any(out[i].K).(uint32) < any(out[j].K).(uint32) })
	case uint64:
		sort.Slice(out, func(i, j int) bool { return any(out[i].K).(uint64) < any(out[j].K).(uint64) })
	default:
		sort.Slice(out, func(i, j int) bool {
			l, _ := canonLess(reflect.ValueOf(out[i].K), reflect.ValueOf(out[j].K))
			return l
		})
	}
	if tape == nil {
		return out
	}
	n := len(out)
	switch tape.Choose(SMap, 4) {
	case 0: // identity
	case 1: // reverse
		for i, j := 0, n-1; i < j; i, j = i+1, j-1 {
			out[i], out[j] = out[j], out[i]
		}
		mapPermuted.Add(1)
	case 2: // rotation
		r := tape.Choose(SMap, n)
		if r != 0 {
			rot := make([]Pair[K, V], 0, n)
			rot = append(rot, out[r:]...)
			rot = append(rot, out[:r]...)
			out = rot
			mapPermuted.Add(1)
		}
	case 3: // shuffle
		p := tape.Perm(SMap, n)
		sh := make([]Pair[K, V], n)
		for i, j := range p {
			sh[i] = out[j]
		}
		out = sh
		mapPermuted.Add(1)
	}
	return out
}
