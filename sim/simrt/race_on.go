//go:build race

package simrt

import "runtime"

func raceOff() { runtime.RaceDisable() }
func raceOn()  { runtime.RaceEnable() }

// RaceErrors is the number of reports the race detector has made so far in this process.
func RaceErrors() int { return runtime.RaceErrors() }

// RaceBuild reports whether the binary was built with -race.
const RaceBuild = true
