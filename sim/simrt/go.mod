module verifsim/simrt

go 1.26.8
