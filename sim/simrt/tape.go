package simrt

import (
	"encoding/json"
	"fmt"
	"os"
	"sort"
	"sync"
)

// Tape is the single source of every decision a simulated run makes: workload shape,
// scheduling, select order, map order, I/O chunking and faults. In search mode every
// stream is a splitmix64 generator keyed by (seed, stream name) and the decisions taken
// are recorded; in replay mode decisions are read back from the recorded streams and
// every decision beyond the end of a stream is 0 (= the default: continue the current
// task, identity order, no fault, whole buffer).
//
// Streams keep decisions of different kinds apart so that deleting or zeroing decisions of
// one kind during minimisation does not shift the meaning of the others.
//
// All methods are //go:norace and guarded by a mutex taken with race synchronisation
// disabled: the tape is shared by all tasks of a run and must not create happens-before
// edges between them (see sched.go).
type Tape struct {
	Seed    uint64
	replay  bool
	mu      sync.Mutex
	streams []*stream // no Go map here: the runtime's map code is race-instrumented even for //go:norace callers
}

type stream struct {
	name  string
	state uint64
	rec   []uint32
	play  []uint32
	pos   int
}

// Well-known stream names.
const (
	SWorkload = "w" // workload shape, circuit, witness, options, policy
	SSched    = "s" // scheduling decisions, select order
	SMap      = "m" // map iteration permutations
	SFault    = "f" // fault placement and kind
	SIO       = "i" // I/O chunking
)

func splitmix(x *uint64) uint64 {
	*x += 0x9e3779b97f4a7c15
	z := *x
	z = (z ^ (z >> 30)) * 0xbf58476d1ce4e5b9
	z = (z ^ (z >> 27)) * 0x94d049bb133111eb
	return z ^ (z >> 31)
}

func hashString(s string) uint64 {
	h := uint64(14695981039346656037)
	for i := 0; i < len(s); i++ {
		h ^= uint64(s[i])
		h *= 1099511628211
	}
	return h
}

// Mix derives a sub-seed from a seed and an index (used for run indices).
func Mix(seed uint64, idx uint64) uint64 {
	x := seed ^ (idx+1)*0xd6e8feb86659fd93
	splitmix(&x)
	return splitmix(&x)
}

// NewTape returns a search-mode tape.
func NewTape(seed uint64) *Tape {
	return &Tape{Seed: seed}
}

// ReplayFile is the on-disk form of a tape together with what it reproduced.
type ReplayFile struct {
	Property  string              `json:"property"`
	Engine    string              `json:"engine"`
	Case      string              `json:"case"`
	Seed      uint64              `json:"seed"`
	Run       uint64              `json:"run"`
	Tier      string              `json:"tier"`
	Class     string              `json:"violation_class"`
	Key       string              `json:"key"`
	Message   string              `json:"message"`
	Streams   map[string][]uint32 `json:"tape"`
	Trace     []string            `json:"trace,omitempty"`
	Faults    []string            `json:"faults,omitempty"`
	Minimised bool                `json:"minimised"`
	OrigLen   int                 `json:"original_tape_len"`
	MinLen    int                 `json:"minimised_tape_len"`
	GoVersion string              `json:"go_version"`
	Race      bool                `json:"race_build"`
	Params    map[string]string   `json:"params,omitempty"`
}

// NewReplayTape returns a replay-mode tape over recorded streams.
func NewReplayTape(seed uint64, streams map[string][]uint32) *Tape {
	t := &Tape{Seed: seed, replay: true}
	for k, v := range streams {
		t.streams = append(t.streams, &stream{name: k, play: append([]uint32(nil), v...)})
	}
	return t
}

func LoadReplay(path string) (*ReplayFile, error) {
	b, err := os.ReadFile(path)
	if err != nil {
		return nil, err
	}
	var rf ReplayFile
	if err := json.Unmarshal(b, &rf); err != nil {
		return nil, fmt.Errorf("%s: %w", path, err)
	}
	return &rf, nil
}

func (rf *ReplayFile) Save(path string) error {
	b, err := json.MarshalIndent(rf, "", " ")
	if err != nil {
		return err
	}
	return os.WriteFile(path, b, 0o644)
}

//go:norace
func (t *Tape) get(name string) *stream {
	for _, s := range t.streams {
		if s.name == name {
			return s
		}
	}
	s := &stream{name: name, state: t.Seed ^ hashString(name)*0x9e3779b97f4a7c15}
	t.streams = append(t.streams, s)
	return s
}

// Replaying reports whether the tape replays recorded decisions.
func (t *Tape) Replaying() bool { return t.replay }

// Choose returns a decision in [0,n). n<=1 consumes nothing.
//
//go:norace
func (t *Tape) Choose(name string, n int) int {
	if n <= 1 {
		return 0
	}
	raceOff()
	t.mu.Lock()
	s := t.get(name)
	var v int
	if t.replay {
		if s.pos < len(s.play) {
			v = int(s.play[s.pos]) % n
		}
		s.pos++
		s.rec = append(s.rec, uint32(v))
	} else {
		v = int(splitmix(&s.state) % uint64(n))
		s.rec = append(s.rec, uint32(v))
	}
	t.mu.Unlock()
	raceOn()
	return v
}

// Decide records a decision produced by gen (a policy on top of raw randomness) in search
// mode and plays the recorded decision back in replay mode. gen receives a raw 64-bit
// random value.
//
//go:norace
func (t *Tape) Decide(name string, n int, gen func(r uint64) int) int {
	if n <= 1 {
		return 0
	}
	raceOff()
	t.mu.Lock()
	s := t.get(name)
	var v int
	if t.replay {
		if s.pos < len(s.play) {
			v = int(s.play[s.pos]) % n
		}
		s.pos++
	} else {
		v = gen(splitmix(&s.state))
		if v < 0 || v >= n {
			v = 0
		}
	}
	s.rec = append(s.rec, uint32(v))
	t.mu.Unlock()
	raceOn()
	return v
}

// Bool is Choose(2)==1 with probability num/den in search mode.
func (t *Tape) Bool(name string, num, den int) bool {
	return t.Decide(name, 2, func(r uint64) int {
		if int(r%uint64(den)) < num {
			return 1
		}
		return 0
	}) == 1
}

// Raw returns a 32-bit value (recorded verbatim).
//
//go:norace
func (t *Tape) Raw(name string) uint32 {
	raceOff()
	t.mu.Lock()
	s := t.get(name)
	var v uint32
	if t.replay {
		if s.pos < len(s.play) {
			v = s.play[s.pos]
		}
		s.pos++
	} else {
		v = uint32(splitmix(&s.state))
	}
	s.rec = append(s.rec, v)
	t.mu.Unlock()
	raceOn()
	return v
}

// Perm returns a permutation of [0,k) (Fisher-Yates over Choose; all zeros = identity).
func (t *Tape) Perm(name string, k int) []int {
	p := make([]int, k)
	for i := range p {
		p[i] = i
	}
	for i := k - 1; i > 0; i-- {
		j := i - t.Choose(name, i+1) // 0 => stay
		p[i], p[j] = p[j], p[i]
	}
	return p
}

// Recorded returns a copy of the decisions taken so far, per stream.
//
//go:norace
func (t *Tape) Recorded() map[string][]uint32 {
	raceOff()
	t.mu.Lock()
	out := map[string][]uint32{}
	for _, s := range t.streams {
		if len(s.rec) > 0 {
			out[s.name] = append([]uint32(nil), s.rec...)
		}
	}
	t.mu.Unlock()
	raceOn()
	return out
}

// Len is the total number of recorded decisions.
func TapeLen(m map[string][]uint32) int {
	n := 0
	for _, v := range m {
		n += len(v)
	}
	return n
}

// NonZero is the number of non-default decisions.
func TapeNonZero(m map[string][]uint32) int {
	n := 0
	for _, v := range m {
		for _, x := range v {
			if x != 0 {
				n++
			}
		}
	}
	return n
}

// Hash of recorded decisions (for determinism self tests).
func TapeHash(m map[string][]uint32) uint64 {
	keys := make([]string, 0, len(m))
	for k := range m {
		keys = append(keys, k)
	}
	sort.Strings(keys)
	h := uint64(14695981039346656037)
	for _, k := range keys {
		h ^= hashString(k)
		h *= 1099511628211
		for _, x := range m[k] {
			h ^= uint64(x)
			h *= 1099511628211
		}
	}
	return h
}

// Minimise is delta debugging over the recorded streams. still(streams) must re-execute the
// case with the candidate tape and report whether the same violation persists. Budget is the
// maximum number of re-executions. Streams are processed in the order given (typically
// faults, schedule, map order, I/O, workload last).
func Minimise(orig map[string][]uint32, order []string, budget int, still func(map[string][]uint32) bool) (map[string][]uint32, int) {
	cur := map[string][]uint32{}
	for k, v := range orig {
		cur[k] = append([]uint32(nil), v...)
	}
	tries := 0
	try := func(name string, cand []uint32) bool {
		if tries >= budget {
			return false
		}
		tries++
		old := cur[name]
		cur[name] = cand
		if still(cur) {
			return true
		}
		cur[name] = old
		return false
	}
	for pass := 0; pass < 2 && tries < budget; pass++ {
		for _, name := range order {
			v, ok := cur[name]
			if !ok || len(v) == 0 {
				continue
			}
			// 1. truncate the tail (everything beyond the end reads as 0)
			for cut := len(cur[name]) / 2; cut >= 1 && tries < budget; {
				v = cur[name]
				if len(v) == 0 {
					break
				}
				if cut > len(v) {
					cut = len(v)
				}
				if try(name, append([]uint32(nil), v[:len(v)-cut]...)) {
					continue
				}
				cut /= 2
			}
			// 2. zero out blocks
			for blk := len(cur[name]) / 2; blk >= 1 && tries < budget; blk /= 2 {
				v = cur[name]
				for i := 0; i < len(v) && tries < budget; i += blk {
					end := i + blk
					if end > len(v) {
						end = len(v)
					}
					allZero := true
					for _, x := range v[i:end] {
						if x != 0 {
							allZero = false
							break
						}
					}
					if allZero {
						continue
					}
					cand := append([]uint32(nil), v...)
					for j := i; j < end; j++ {
						cand[j] = 0
					}
					if try(name, cand) {
						v = cur[name]
					}
				}
			}
			// 3. lower single values
			v = cur[name]
			for i := 0; i < len(v) && tries < budget; i++ {
				if v[i] <= 1 {
					continue
				}
				cand := append([]uint32(nil), v...)
				cand[i] = 1
				if try(name, cand) {
					v = cur[name]
				}
			}
		}
	}
	// strip trailing zeros (equivalent by construction)
	for k, v := range cur {
		n := len(v)
		for n > 0 && v[n-1] == 0 {
			n--
		}
		cur[k] = v[:n]
	}
	return cur, tries
}
