package simrt

import (
	"errors"
	"io"
)

// Injected stream errors.
var (
	ErrIO      = errors.New("simio: injected I/O error (EIO)")
	ErrNoSpace = errors.New("simio: injected no space left on device (ENOSPC)")
)

// Chunker decides how many bytes of a request of n bytes are served.
type Chunker func(n int) int

// TapeChunker serves tape-chosen chunk sizes: whole request (default), 1 byte, or a
// uniformly chosen size.
func TapeChunker(t *Tape) Chunker {
	return func(n int) int {
		if n <= 1 {
			return n
		}
		switch t.Choose(SIO, 4) {
		case 0:
			return n
		case 1:
			return 1
		case 2:
			return 1 + t.Choose(SIO, n)
		default:
			if n > 7 {
				return 7
			}
			return n
		}
	}
}

// WriteRec is one Write call seen by a Writer: the gnark-crypto encoder issues one Write
// per group element / scalar / length prefix, so the log is the field map of the artifact.
type WriteRec struct{ Off, Len int }

// Writer is a simulated disk / connection receiving a stream.
type Writer struct {
	Buf      []byte
	Log      []WriteRec
	FailAt   int   // inject Err once Buf would grow beyond FailAt bytes (<0: never)
	Err      error // error to inject
	Short    bool  // on failure, accept the bytes up to FailAt and report a short write
	Chunk    Chunker
	Calls    int
	Injected int
}

func NewWriter() *Writer { return &Writer{FailAt: -1} }

func (w *Writer) Write(p []byte) (int, error) {
	w.Calls++
	if w.FailAt >= 0 && len(w.Buf)+len(p) > w.FailAt {
		w.Injected++
		k := 0
		if w.Short {
			k = w.FailAt - len(w.Buf)
			if k < 0 {
				k = 0
			}
			w.Log = append(w.Log, WriteRec{len(w.Buf), k})
			w.Buf = append(w.Buf, p[:k]...)
		}
		err := w.Err
		if err == nil {
			err = ErrIO
		}
		return k, err
	}
	w.Log = append(w.Log, WriteRec{len(w.Buf), len(p)})
	w.Buf = append(w.Buf, p...)
	return len(p), nil
}

// Reader is a simulated disk / connection serving a stream with legal-but-adversarial
// chunking and optional faults.
type Reader struct {
	Data        []byte
	Pos         int
	Chunk       Chunker
	FailAt      int   // inject Err when the read position reaches FailAt (<0: never)
	Err         error // error to inject (default ErrIO)
	EOFWithData bool  // return (n>0, io.EOF) on the read that drains the data
	ZeroReads   int   // number of (0,nil) reads to hand out at tape-chosen times (via Chunk returning 0)
	Calls       int
	Injected    int
}

func NewReader(b []byte) *Reader { return &Reader{Data: b, FailAt: -1} }

func (r *Reader) Read(p []byte) (int, error) {
	r.Calls++
	if len(p) == 0 {
		return 0, nil
	}
	if r.FailAt >= 0 && r.Pos >= r.FailAt {
		r.Injected++
		if r.Err != nil {
			return 0, r.Err
		}
		return 0, ErrIO
	}
	if r.Pos >= len(r.Data) {
		return 0, io.EOF
	}
	n := len(p)
	if rem := len(r.Data) - r.Pos; n > rem {
		n = rem
	}
	if r.FailAt >= 0 && r.Pos+n > r.FailAt {
		n = r.FailAt - r.Pos
	}
	if r.Chunk != nil && n > 1 {
		if c := r.Chunk(n); c >= 1 && c < n {
			n = c
		}
	}
	copy(p, r.Data[r.Pos:r.Pos+n])
	r.Pos += n
	if r.EOFWithData && r.Pos == len(r.Data) {
		return n, io.EOF
	}
	return n, nil
}

// Consumed is the number of bytes handed out so far.
func (r *Reader) Consumed() int { return r.Pos }
