//go:build !race

package simrt

func raceOff() {}
func raceOn()  {}

// RaceErrors is the number of reports the race detector has made so far in this process.
func RaceErrors() int { return 0 }

// RaceBuild reports whether the binary was built with -race.
const RaceBuild = false
