package simrt

import (
	"errors"
	"io"
	"runtime"
	"strings"
	"sync"
	"sync/atomic"
)

// Entropy modes.
const (
	EntKeyed     = iota // bytes = PRF(key, scope, call stack, per-(scope,stack) counter): schedule independent
	EntZero             // stuck-at-zero generator
	EntConst            // every draw returns 0x00..01 (a valid, tiny field element)
	EntRepeat           // every draw returns the same keyed block (replayed entropy)
	EntErrAfter         // keyed until draw FailAt, then an error on every draw
	EntShortRead        // keyed until draw FailAt, then a short read (n < len(p), io.ErrUnexpectedEOF)
)

var EntropyModeNames = []string{"keyed", "zero", "const", "repeat", "err_after", "short_read"}

// ErrEntropy is the injected entropy failure.
var ErrEntropy = errors.New("simrt: injected entropy failure")

type ctrKey struct {
	scope uint64
	stack uint64
}

type ctrEnt struct {
	key   ctrKey
	n     uint64
	owner uint64 // goroutine id of the first drawer
}

// Entropy is an io.Reader meant to be assigned to crypto/rand.Reader for the duration of a
// run.
//
// In keyed mode a draw is identified by the entropy scope of the drawing task (SetScope: one
// scope per API call under test), the names of the gnark functions on its call stack, and a
// counter per (scope, stack). The bytes a given blinder receives are therefore independent of
// the schedule and of which pool worker happens to execute it, so with entropy pinned a
// prover's output must be bit-identical across interleavings. If two different goroutines
// draw with the same (scope, stack) the counter order would depend on the schedule: such a
// scope is marked ambiguous and byte-level oracles must not be applied to it.
type Entropy struct {
	Key    uint64
	Mode   int
	FailAt uint64 // draw index (global) from which EntErrAfter / EntShortRead fail
	Debug  func(scope string, stack uint64, ctr uint64, n int)

	mu   sync.Mutex
	ctrs []*ctrEnt // no Go map: runtime map code is race-instrumented even for //go:norace callers
	namb atomic.Uint64

	draws  atomic.Uint64 // total draws
	bytes  atomic.Uint64
	failed atomic.Uint64 // draws that returned an injected error
	anon   atomic.Uint64 // draws by goroutines outside any task (or outside a simulation)
}

var _ io.Reader = (*Entropy)(nil)

func (e *Entropy) Draws() uint64  { return e.draws.Load() }
func (e *Entropy) Bytes() uint64  { return e.bytes.Load() }
func (e *Entropy) Failed() uint64 { return e.failed.Load() }
func (e *Entropy) Anon() uint64   { return e.anon.Load() }

// AmbiguousDraws is the number of draws whose identity was schedule dependent.
func (e *Entropy) AmbiguousDraws() uint64 { return e.namb.Load() }

func stackHash() uint64 {
	var pcs [32]uintptr
	n := runtime.Callers(3, pcs[:])
	frames := runtime.CallersFrames(pcs[:n])
	h := uint64(14695981039346656037)
	cnt := 0
	for {
		f, more := frames.Next()
		name := f.Function
		switch {
		case strings.HasPrefix(name, "harness.") || strings.HasPrefix(name, "verifsim/") || strings.HasPrefix(name, "testing.") || name == "runtime.goexit":
			return h
		case strings.HasPrefix(name, "crypto/rand.") || strings.HasPrefix(name, "io.") || strings.HasPrefix(name, "runtime."):
		default:
			// closures are numbered per enclosing function: keep the name, drop nothing
			h ^= hashString(name)
			h *= 1099511628211
			cnt++
		}
		if !more || cnt >= 12 {
			return h
		}
	}
}

//go:norace
func (e *Entropy) Read(p []byte) (int, error) {
	// a read of the entropy source is a system call that may block: a scheduling point
	Yield("entropy:read")
	g := e.draws.Add(1) - 1
	var t *task
	if s := cur.Load(); s != nil && s.active.Load() {
		t = s.me()
	}
	var sc *Scope
	if t != nil {
		sc = t.scope
	} else {
		e.anon.Add(1)
		sc = ambient.Load()
	}
	scope, sid := "", uint64(0)
	if sc != nil {
		scope, sid = sc.Label, sc.id
	}
	sh := stackHash()
	me := goid()
	raceOff()
	e.mu.Lock()
	k := ctrKey{sid, sh}
	var c *ctrEnt
	for i := len(e.ctrs) - 1; i >= 0; i-- {
		if e.ctrs[i].key == k {
			c = e.ctrs[i]
			break
		}
	}
	if c == nil {
		c = &ctrEnt{key: k, owner: me}
		e.ctrs = append(e.ctrs, c)
	} else if c.owner != me {
		e.namb.Add(1)
		if sc != nil {
			sc.ambiguous.Store(true)
		}
	}
	ctr := c.n
	c.n++
	e.mu.Unlock()
	raceOn()
	if e.Debug != nil {
		e.Debug(scope, sh, ctr, len(p))
	}
	tid := hashString(scope) ^ sh*0x9e3779b97f4a7c15
	switch e.Mode {
	case EntZero:
		for i := range p {
			p[i] = 0
		}
		e.bytes.Add(uint64(len(p)))
		return len(p), nil
	case EntConst:
		for i := range p {
			p[i] = 0
		}
		if len(p) > 0 {
			p[len(p)-1] = 1
		}
		e.bytes.Add(uint64(len(p)))
		return len(p), nil
	case EntRepeat:
		// the same block for every draw; its first and last quarters are zero, so that the
		// value is small whether it is read big-endian (crypto/rand.Int) or little-endian
		// (fr.Element.SetRandom) and rejection samplers terminate on the first attempt
		fill(p, e.Key, 1, 1)
		for i := 0; i <= len(p)/4 && i < len(p); i++ {
			p[i] = 0
			p[len(p)-1-i] = 0
		}
		e.bytes.Add(uint64(len(p)))
		return len(p), nil
	case EntErrAfter:
		if g >= e.FailAt {
			e.failed.Add(1)
			return 0, ErrEntropy
		}
	case EntShortRead:
		if g >= e.FailAt && len(p) > 1 {
			e.failed.Add(1)
			fill(p[:len(p)/2], e.Key, tid, ctr)
			return len(p) / 2, io.ErrUnexpectedEOF
		}
	}
	fill(p, e.Key, tid, ctr)
	e.bytes.Add(uint64(len(p)))
	return len(p), nil
}

//go:norace
func fill(p []byte, key, tid, ctr uint64) {
	x := key ^ tid*0x9e3779b97f4a7c15 ^ (ctr+1)*0xd6e8feb86659fd93
	splitmix(&x)
	for i := 0; i < len(p); i += 8 {
		v := splitmix(&x)
		for j := 0; j < 8 && i+j < len(p); j++ {
			p[i+j] = byte(v >> (8 * j))
		}
	}
}
