// Package simrt is the deterministic simulation runtime: a token scheduler on top of a
// testing/synctest bubble, a decision tape, a keyed entropy source, a map-order seam and
// simulated streams.
//
// All scheduler state lives in atomics inside //go:norace functions and every piece of the
// runtime's own synchronisation is bracketed by runtime.RaceDisable/RaceEnable, so that in a
// -race build the detector sees only the happens-before edges of the program under test,
// even though the execution is fully serialised by the token.
package simrt

import (
	"fmt"
	"runtime"
	"runtime/debug"
	"strconv"
	"strings"
	"sync/atomic"
	"testing/synctest"
)

type task struct {
	id     string
	idx    int
	grant  chan struct{}
	parked atomic.Bool
	site   atomic.Pointer[string]
	nspawn atomic.Int32
	locks  atomic.Int32
	done   atomic.Bool
	bound  atomic.Bool
	draws  atomic.Uint64 // entropy draws by this task
	// entropy scope: draws are keyed by (scope, path relative to the task that opened the
	// scope, per-task counter), so that the same call made solo or next to others, by
	// whichever client, receives the same random bytes.
	scope *Scope
	hot   uint64 // calls of YieldHot by this task
	prio   int64         // PCT priority (scheduler goroutine only)
}

// Ticket identifies a task that has been registered by its parent but may not have started.
type Ticket struct{ t *task }

const tabSize = 1 << 13
const maxTasks = 1 << 12

type slot struct {
	key atomic.Uint64
	val atomic.Pointer[task]
}

// Policy kinds.
const (
	PolUniform = iota
	PolSticky
	PolPCT
	PolStarve
	PolRoundRobin
	PolDefault // always decision 0: run current task as long as possible, then lowest id
	NumPolicies
)

var PolicyNames = []string{"uniform", "sticky", "pct", "starve", "roundrobin", "default"}

// Config of one simulated run.
type Config struct {
	Tape      *Tape
	Policy    int
	StickyPct int // sticky: probability (percent) of continuing the current task
	PCTDepth  int // pct: number of priority change points
	PCTSpan   int // pct: expected number of steps over which change points are placed
	Victim    int // starve: task index that only runs when nothing else can
	MaxSteps  int
	HotPeriod int // YieldHot parks on every HotPeriod-th call (<=1: every call)
	KeepTrace int // keep the last KeepTrace trace entries (0 = none)
}

// Result of one simulated run.
type Result struct {
	Steps      int
	Hash       uint64 // hash of the (task, site) sequence = the interleaving
	Deadlock   bool
	Blocked    []string // unfinished tasks and the site they were last seen at (deadlock / leak)
	Panic      string   // first panic captured in any task ("" if none)
	PanicStack string
	StepLimit  bool
	Leaked     int // tasks not finished when the root returned and quiescence was reached
	Tasks      int
	Unreg      int64 // yields executed by goroutines the scheduler does not know
	MultiReady int   // scheduling decisions that had more than one runnable task
	States     []uint64
	Trace      []string
	Races      int // race detector reports during the run (race build only)
	Bubble     string
	SiteCount  map[string]int
}

// Sim is the state of one run.
type Sim struct {
	cfg    Config
	tab    [tabSize]slot
	tasks  []atomic.Pointer[task]
	ntasks atomic.Int32
	active atomic.Bool
	unreg  atomic.Int64
	panics atomic.Pointer[string]
	pstack atomic.Pointer[string]
}

var cur atomic.Pointer[Sim]

func goid() uint64 {
	var buf [64]byte
	n := runtime.Stack(buf[:], false)
	var id uint64
	for _, c := range buf[10:n] {
		if c < '0' || c > '9' {
			break
		}
		id = id*10 + uint64(c-'0')
	}
	return id
}

//go:norace
func (s *Sim) me() *task {
	g := goid()
	for i := g % tabSize; ; i = (i + 1) % tabSize {
		k := s.tab[i].key.Load()
		if k == g {
			return s.tab[i].val.Load()
		}
		if k == 0 {
			return nil
		}
	}
}

//go:norace
func (s *Sim) bind(g uint64, t *task) {
	for i := g % tabSize; ; i = (i + 1) % tabSize {
		k := s.tab[i].key.Load()
		if k == g {
			s.tab[i].val.Store(t)
			return
		}
		if k == 0 {
			if s.tab[i].key.CompareAndSwap(0, g) {
				s.tab[i].val.Store(t)
				return
			}
		}
	}
}

//go:norace
func (s *Sim) addTask(t *task) {
	n := int(s.ntasks.Add(1))
	if n > len(s.tasks) {
		panic("simrt: too many tasks")
	}
	t.idx = n - 1
	s.tasks[n-1].Store(t)
}

// Active reports whether a simulated run is in progress.
func Active() bool {
	s := cur.Load()
	return s != nil && s.active.Load()
}

// Yield parks the calling task until the scheduler grants it the token. It is a no-op when
// no simulation is running, for goroutines the scheduler does not know, and while the task
// holds a lock (a parked lock holder would block others non-durably).
//
//go:norace
func Yield(site string) {
	s := cur.Load()
	if s == nil || !s.active.Load() {
		return
	}
	raceOff()
	t := s.me()
	if t == nil {
		s.unreg.Add(1)
		raceOn()
		return
	}
	if t.locks.Load() > 0 {
		raceOn()
		return
	}
	t.site.Store(&site)
	t.parked.Store(true)
	<-t.grant
	raceOn()
}

// YieldHot is Yield for sites on hot paths (one per solved wire / instruction): it parks only
// on every HotPeriod-th call of the task, so that the density of interleaving points on those
// paths is a per-run tuning knob instead of a fixed cost.
//
//go:norace
func YieldHot(site string) {
	s := cur.Load()
	if s == nil || !s.active.Load() {
		return
	}
	t := s.me()
	if t == nil {
		return
	}
	t.hot++
	p := uint64(s.cfg.HotPeriod)
	if p <= 1 || t.hot%p == 0 {
		Yield(site)
	}
}

// Spawn registers a child of the calling task and fixes its logical id (spawn path).
//
//go:norace
func Spawn() Ticket {
	s := cur.Load()
	if s == nil || !s.active.Load() {
		return Ticket{}
	}
	raceOff()
	p := s.me()
	var id string
	var scope *Scope
	if p != nil {
		k := int(p.nspawn.Add(1)) - 1
		id = p.id + "/" + strconv.Itoa(k)
		scope = p.scope
	} else {
		id = "u/" + strconv.FormatInt(s.unreg.Add(1), 10)
	}
	t := &task{id: id, grant: make(chan struct{}), scope: scope}
	s.addTask(t)
	raceOn()
	return Ticket{t}
}

// Enter binds the running goroutine to its ticket and parks it.
//
//go:norace
func Enter(tk Ticket) {
	s := cur.Load()
	if s == nil || tk.t == nil {
		return
	}
	raceOff()
	s.bind(goid(), tk.t)
	tk.t.bound.Store(true)
	raceOn()
	Yield("start")
}

// Exit must be deferred directly (so that recover works): it records a panic of the task
// instead of letting it kill the process, and retires the task.
//
//go:norace
func Exit(tk Ticket) {
	s := cur.Load()
	if s == nil || tk.t == nil {
		return
	}
	r := recover()
	raceOff()
	if r != nil {
		msg := fmt.Sprintf("task %s panicked: %v", tk.t.id, r)
		if s.panics.CompareAndSwap(nil, &msg) {
			st := string(debug.Stack())
			s.pstack.Store(&st)
		}
	}
	tk.t.done.Store(true)
	s.bind(goid(), nil)
	raceOn()
}

// Go starts f as a task (for harness code, which is not instrumented).
func Go(f func()) {
	tk := Spawn()
	go func() {
		Enter(tk)
		defer Exit(tk)
		f()
	}()
}

// WrapErr is used by the instrumenter for errgroup.Group.Go(f).
func WrapErr(f func() error) func() error {
	tk := Spawn()
	return func() error {
		Enter(tk)
		defer Exit(tk)
		return f()
	}
}

// Recv / Recv2 replace receive expressions: receive, then yield, so that a woken task parks
// before touching anything.
func Recv[T any](ch <-chan T, site string) T {
	v := <-ch
	Yield(site)
	return v
}

func Recv2[T any](ch <-chan T, site string) (T, bool) {
	v, ok := <-ch
	Yield(site)
	return v, ok
}

// After yields after evaluating v (used for g.Wait()).
func After[T any](v T, site string) T {
	Yield(site)
	return v
}

// ZeroOf returns the zero value of the channel's element type (select rewrite).
func ZeroOf[T any](ch <-chan T) T { var z T; return z }

// ZeroOfS is ZeroOf for send-only / bidirectional channels that do not convert implicitly.
func ZeroOfB[T any](ch chan T) T { var z T; return z }

//go:norace
func LockAcquired() {
	s := cur.Load()
	if s == nil || !s.active.Load() {
		return
	}
	if t := s.me(); t != nil {
		t.locks.Add(1)
	}
}

//go:norace
func LockReleased() {
	s := cur.Load()
	if s == nil || !s.active.Load() {
		return
	}
	if t := s.me(); t != nil {
		t.locks.Add(-1)
	}
}

// SelectOrder yields, then returns a tape-chosen order in which the k cases of a select
// are polled.
func SelectOrder(k int, site string) []int {
	Yield(site)
	s := cur.Load()
	if s == nil || !s.active.Load() || k < 2 {
		ord := make([]int, k)
		for i := range ord {
			ord[i] = i
		}
		return ord
	}
	return s.cfg.Tape.Perm(SSched, k)
}

// Scope is one instance of an entropy scope (one API call under test).
type Scope struct {
	Label     string
	id        uint64
	ambiguous atomic.Bool
}

// Ambiguous reports whether some draw in the scope had a schedule-dependent identity.
func (sc *Scope) Ambiguous() bool { return sc != nil && sc.ambiguous.Load() }

var scopeSeq atomic.Uint64
var ambient atomic.Pointer[Scope]

// SetScope opens an entropy scope on the calling task: from now on its draws and those of
// the tasks it spawns are keyed by (label, call stack, per-(scope instance, stack) counter).
// Outside a simulation the scope becomes the ambient scope of the process.
//
//go:norace
func SetScope(label string) *Scope {
	sc := &Scope{Label: label, id: scopeSeq.Add(1)}
	s := cur.Load()
	if s == nil || !s.active.Load() {
		ambient.Store(sc)
		return sc
	}
	if t := s.me(); t != nil {
		t.scope = sc
	}
	return sc
}

// TaskID returns the logical id of the calling task ("" outside a simulation or for an
// unknown goroutine).
//
//go:norace
func TaskID() string {
	s := cur.Load()
	if s == nil || !s.active.Load() {
		return ""
	}
	if t := s.me(); t != nil {
		return t.id
	}
	return ""
}

// Run executes root as task "r" under the scheduler. It must be called inside a synctest
// bubble; the calling goroutine becomes the scheduler.
//
//go:norace
func Run(cfg Config, root func()) (res Result) {
	if cfg.MaxSteps == 0 {
		cfg.MaxSteps = 2_000_000
	}
	s := &Sim{cfg: cfg, tasks: make([]atomic.Pointer[task], maxTasks)}
	cur.Store(s)
	s.active.Store(true)
	races0 := RaceErrors()
	rt := &task{id: "r", grant: make(chan struct{})}
	s.addTask(rt)
	var rootDone atomic.Bool
	go func() {
		tk := Ticket{rt}
		raceOff()
		s.bind(goid(), rt)
		rt.bound.Store(true)
		raceOn()
		defer rootDone.Store(true)
		defer Exit(tk)
		Yield("start")
		root()
	}()
	raceOff()
	tape := cfg.Tape
	h := uint64(14695981039346656037)
	mixs := func(str string) {
		for i := 0; i < len(str); i++ {
			h ^= uint64(str[i])
			h *= 1099511628211
		}
		h ^= 0xff
		h *= 1099511628211
	}
	run := make([]*task, 0, 64)
	var current *task
	stateSet := map[uint64]struct{}{}
	res.SiteCount = map[string]int{}
	rrNext := 0
	// PCT change points
	var pctPoints map[int]bool
	nextLow := int64(-1)
	if cfg.Policy == PolPCT && !tape.Replaying() {
		pctPoints = map[int]bool{}
		span := cfg.PCTSpan
		if span <= 0 {
			span = 1000
		}
		for i := 0; i < cfg.PCTDepth; i++ {
			pctPoints[int(tape.Raw("pct"))%span] = true
		}
	}
	for {
		synctest.Wait()
		run = run[:0]
		n := int(s.ntasks.Load())
		var sh uint64
		for i := 0; i < n; i++ {
			t := s.tasks[i].Load()
			if t == nil {
				continue
			}
			if t.parked.Load() {
				if t == current {
					run = append(run, nil)
					copy(run[1:], run[:len(run)-1])
					run[0] = t
				} else {
					run = append(run, t)
				}
			}
			if !t.done.Load() {
				if p := t.site.Load(); p != nil {
					sh += hashString(*p) * 0x9e3779b97f4a7c15
				}
			}
		}
		stateSet[sh] = struct{}{}
		if len(run) == 0 || s.panics.Load() != nil || res.Steps >= cfg.MaxSteps {
			if s.panics.Load() != nil {
				// a task crashed: stop scheduling; the remaining tasks stay parked (the
				// bubble is abandoned).
			} else if res.Steps >= cfg.MaxSteps && len(run) > 0 {
				res.StepLimit = true
			} else if !rootDone.Load() {
				res.Deadlock = true
			}
			for i := 0; i < n; i++ {
				t := s.tasks[i].Load()
				if t != nil && !t.done.Load() {
					st := "?"
					if p := t.site.Load(); p != nil {
						st = *p
					}
					res.Blocked = append(res.Blocked, t.id+"@"+st)
					if rootDone.Load() {
						res.Leaked++
					}
				}
			}
			break
		}
		k := 0
		if len(run) > 1 {
			res.MultiReady++
			nr := len(run)
			hasCur := current != nil && run[0] == current
			switch cfg.Policy {
			case PolUniform:
				k = tape.Choose(SSched, nr)
			case PolSticky:
				k = tape.Decide(SSched, nr, func(r uint64) int {
					if hasCur && int(r%100) < cfg.StickyPct {
						return 0
					}
					return int((r >> 8) % uint64(nr))
				})
			case PolPCT:
				k = tape.Decide(SSched, nr, func(r uint64) int {
					// priorities are assigned lazily from the raw stream
					best, bi := int64(-1<<62), 0
					for i, t := range run {
						if t.prio == 0 {
							t.prio = int64(hashString(t.id)^(tape.Seed*0x9e3779b97f4a7c15))>>2 | 1
							if t.prio < 0 {
								t.prio = -t.prio
							}
						}
						if t.prio > best {
							best, bi = t.prio, i
						}
					}
					if pctPoints[res.Steps] {
						run[bi].prio = nextLow
						nextLow--
					}
					return bi
				})
			case PolStarve:
				k = tape.Decide(SSched, nr, func(r uint64) int {
					c := int(r % uint64(nr))
					if run[c].idx == cfg.Victim {
						c = (c + 1) % nr
					}
					return c
				})
			case PolRoundRobin:
				k = tape.Decide(SSched, nr, func(r uint64) int {
					// lowest task index greater than the last one run, wrapping
					bi, bidx := -1, 1<<30
					mi, midx := 0, 1<<30
					for i, t := range run {
						if t.idx >= rrNext && t.idx < bidx {
							bi, bidx = i, t.idx
						}
						if t.idx < midx {
							mi, midx = i, t.idx
						}
					}
					if bi < 0 {
						bi = mi
					}
					return bi
				})
			default:
				k = tape.Decide(SSched, nr, func(r uint64) int { return 0 })
			}
		}
		t := run[k]
		current = t
		rrNext = t.idx + 1
		res.Steps++
		st := *t.site.Load()
		mixs(t.id)
		mixs(st)
		res.SiteCount[st]++
		if cfg.KeepTrace > 0 {
			if len(res.Trace) >= 2*cfg.KeepTrace {
				res.Trace = append(res.Trace[:0], res.Trace[len(res.Trace)-cfg.KeepTrace:]...)
			}
			res.Trace = append(res.Trace, t.id+"@"+st)
		}
		t.parked.Store(false)
		t.grant <- struct{}{}
	}
	s.active.Store(false)
	cur.Store(nil)
	raceOn()
	res.Hash = h
	res.Tasks = int(s.ntasks.Load())
	res.Unreg = s.unreg.Load()
	if p := s.panics.Load(); p != nil {
		res.Panic = *p
		if q := s.pstack.Load(); q != nil {
			res.PanicStack = trimStack(*q)
		}
	}
	if cfg.KeepTrace > 0 && len(res.Trace) > cfg.KeepTrace {
		res.Trace = res.Trace[len(res.Trace)-cfg.KeepTrace:]
	}
	res.States = make([]uint64, 0, len(stateSet))
	for k := range stateSet {
		res.States = append(res.States, k)
	}
	res.Races = RaceErrors() - races0
	return
}

func trimStack(s string) string {
	lines := strings.Split(s, "\n")
	var out []string
	for _, l := range lines {
		if strings.Contains(l, "simrt.Exit") || strings.Contains(l, "debug.Stack") || strings.Contains(l, "runtime/debug") {
			continue
		}
		out = append(out, l)
		if len(out) > 40 {
			break
		}
	}
	return strings.Join(out, "\n")
}
